// Package c13 decides property C13: verification reports exactly the unmet
// expectations since the last reset.
//
// Verifier-bearing configuration trees (FIFO groups, the five filters with
// verifiers in either branch, the seven verifier types, scopes at every
// level) are installed in a martianhttp.Modifier through its configuration
// endpoint and observed through the real verify.Handler / verify.ResetHandler.
// Histories of exchanges (ordinary and API-marked), queries and resets are
// compared with a model built on the reference tree walk of package treeref.
// A concurrent variant races queries/resets against traffic goroutines.
package c13

import (
	"encoding/json"
	"errors"
	"fmt"
	"io"
	"net/http/httptest"
	"net/url"
	"runtime"
	"sort"
	"strings"
	"sync"
	"sync/atomic"
	"testing"
	"unicode/utf8"

	"github.com/google/martian/v3"
	"github.com/google/martian/v3/api"
	mlog "github.com/google/martian/v3/log"
	"github.com/google/martian/v3/martianhttp"
	"github.com/google/martian/v3/parse"
	"github.com/google/martian/v3/verify"
	"pgregory.net/rapid"

	_ "github.com/google/martian/v3/cookie"
	_ "github.com/google/martian/v3/failure"
	_ "github.com/google/martian/v3/fifo"
	_ "github.com/google/martian/v3/header"
	_ "github.com/google/martian/v3/martianurl"
	_ "github.com/google/martian/v3/method"
	_ "github.com/google/martian/v3/noop"
	_ "github.com/google/martian/v3/pingback"
	_ "github.com/google/martian/v3/port"
	_ "github.com/google/martian/v3/querystring"
	_ "github.com/google/martian/v3/skip"
	_ "github.com/google/martian/v3/status"

	"verifharness/internal/kit"
	tr "verifharness/props/treeref"
)

func TestMain(m *testing.M) {
	mlog.SetLevel(mlog.Silent)
	kit.Assume("the text of a verification error is learnt from a fresh, isolated instance of the same verifier fed the same message; whether an expectation is met is decided by the model (DESIGN Appendix A.2), and a disagreement between the two is itself reported")
	kit.Assume("verifiers under priority groups are outside the statement (priority groups offer no verification walk) and are not generated")
	kit.Main(m, "C13")
}

// ---------------------------------------------------------------- cases

// Op is one step of a history. K: "X" exchange (request, then its response
// unless NoRes), "V" verification query, "Z" reset.
type Op struct {
	K     string  `json:"k"`
	Req   *tr.Req `json:"req,omitempty"`
	Res   *tr.Res `json:"res,omitempty"`
	API   bool    `json:"api,omitempty"`    // the exchange is addressed to the proxy's own API
	Fwd   bool    `json:"fwd,omitempty"`    // with API: marked by passing through the real api.Forwarder (else ctx.APIRequest() directly)
	NoRes bool    `json:"no_res,omitempty"` // request only
	Form  string  `json:"form,omitempty"`   // the request carries this application/x-www-form-urlencoded body
}

// Case is a verifier-bearing tree and a sequential history.
type Case struct {
	Tree *tr.Node `json:"tree"`
	Ops  []Op     `json:"ops"`
	// Shape names the case in the matrix of shapes that have signatures of
	// their own (see TestEnumShapes).
	Shape string `json:"shape,omitempty"`
}

// ---------------------------------------------------------------- system under test

// apiPort is the port of the (never started) API server the forwarder targets.
const apiPort = 8181

var apiTarget = fmt.Sprintf("localhost:%d", apiPort)

// apiForm names how an exchange is marked as addressed to the proxy's API.
func apiForm(op *Op) string {
	switch {
	case !op.API:
		return ""
	case !op.Fwd:
		return "direct"
	case op.Req.Scheme == "http" && op.Req.Host == apiTarget:
		return "url-already-forwarder-target"
	case strings.EqualFold(op.Req.Host, apiTarget):
		return "url-names-target-in-other-spelling"
	}
	return "url-virtual-host"
}

// effReq is the request as the configured tree sees it: the forwarder, which
// the proxy's mux filter runs ahead of everything else, re-addresses API
// requests to http://localhost:<port>.
func effReq(op *Op) *tr.Req {
	rq := op.Req.Clone()
	if op.API && op.Fwd {
		rq.Scheme, rq.Host = "http", apiTarget
	}
	return rq
}

func apiSig(form, kind string) string {
	if form == "direct" || form == "" {
		return "C13/api-exempt/" + kind + "-verifier/api-request-counted"
	}
	return "C13/api-exempt/forwarder/" + form + "/api-request-counted"
}

type sut struct {
	fwd *api.Forwarder
	// the modifiers traffic runs through and the verifiers the handlers are
	// wired to: the martianhttp.Modifier holding the tree, or - direct wiring -
	// the root of the parsed tree itself (nil where the root has no such side)
	reqmod  martian.RequestModifier
	resmod  martian.ResponseModifier
	reqv    verify.RequestVerifier
	resv    verify.ResponseVerifier
	m       *martianhttp.Modifier
	verifyH *verify.Handler
	resetH  *verify.ResetHandler
}

func newSUT(tree *tr.Node) (*sut, kit.Verdict) { return newSUTWired(tree, false) }

// newSUTWired: direct = the parsed tree is used without a martianhttp.Modifier
// around it: traffic runs through its root and the verify/reset handlers are
// wired to its root (as a proxy embedding a group does). Only the root's own
// locking then keeps resets, queries and traffic apart.
func newSUTWired(tree *tr.Node, direct bool) (*sut, kit.Verdict) {
	s := &sut{fwd: api.NewForwarder("", apiPort), verifyH: verify.NewHandler(), resetH: verify.NewResetHandler()}
	if direct {
		r, err := parse.FromJSON(tree.JSON())
		if err != nil {
			return nil, kit.Failf("C13/setup/valid-tree/rejected", "valid configuration rejected: %v: %s", err, tree.JSON())
		}
		s.reqmod, s.resmod = r.RequestModifier(), r.ResponseModifier()
		s.reqv, _ = s.reqmod.(verify.RequestVerifier)
		s.resv, _ = s.resmod.(verify.ResponseVerifier)
	} else {
		s.m = martianhttp.NewModifier()
		rw := httptest.NewRecorder()
		s.m.ServeHTTP(rw, httptest.NewRequest("POST", "/configure", strings.NewReader(string(tree.JSON()))))
		if rw.Code != 200 {
			return nil, kit.Failf("C13/setup/valid-tree/rejected", "valid configuration answered %d %q: %s", rw.Code, rw.Body.String(), tree.JSON())
		}
		s.reqmod, s.resmod, s.reqv, s.resv = s.m, s.m, s.m, s.m
	}
	if s.reqv != nil {
		s.verifyH.SetRequestVerifier(s.reqv)
		s.resetH.SetRequestVerifier(s.reqv)
	}
	if s.resv != nil {
		s.verifyH.SetResponseVerifier(s.resv)
		s.resetH.SetResponseVerifier(s.resv)
	}
	return s, nil
}

// resetDirect resets by calling the verifier interface, not the handler.
func (s *sut) resetDirect() {
	if s.reqv != nil {
		s.reqv.ResetRequestVerifications()
	}
	if s.resv != nil {
		s.resv.ResetResponseVerifications()
	}
}

// exchange runs one request (and its response) through the modifier.
func (s *sut) exchange(op *Op) error {
	req := tr.RealRequest(op.Req)
	ctx, remove, err := martian.TestContext(req, nil, nil)
	if err != nil {
		panic(err)
	}
	defer remove()
	switch {
	case op.API && op.Fwd:
		// the real marking path: what the proxy's mux filter routes API traffic through
		if err := s.fwd.ModifyRequest(req); err != nil {
			return fmt.Errorf("api.Forwarder.ModifyRequest: %v", err)
		}
	case op.API:
		ctx.APIRequest()
	}
	if op.Form != "" {
		req.Body = io.NopCloser(strings.NewReader(op.Form))
		req.ContentLength = int64(len(op.Form))
		req.Header.Set("Content-Type", "application/x-www-form-urlencoded")
	}
	if s.reqmod != nil {
		if err := s.reqmod.ModifyRequest(req); err != nil {
			return fmt.Errorf("ModifyRequest: %v", err)
		}
	}
	if op.Form != "" {
		// verifiers only look: what is forwarded is the body as it came
		left, _ := io.ReadAll(req.Body)
		if string(left) != op.Form {
			return fmt.Errorf("%w: %d of %d bytes are left to forward", errBodyConsumed, len(left), len(op.Form))
		}
	}
	if !op.NoRes && s.resmod != nil {
		if err := s.resmod.ModifyResponse(tr.RealResponse(op.Res, req)); err != nil {
			return fmt.Errorf("ModifyResponse: %v", err)
		}
	}
	return nil
}

var errBodyConsumed = errors.New("the request body was consumed while the request passed the verifier tree")

func (s *sut) query() ([]string, error) {
	rw := httptest.NewRecorder()
	s.verifyH.ServeHTTP(rw, httptest.NewRequest("GET", "/verify", nil))
	if rw.Code != 200 {
		return nil, fmt.Errorf("verification handler answered %d", rw.Code)
	}
	var doc struct {
		Errors []struct {
			Message string `json:"message"`
		} `json:"errors"`
	}
	if err := json.Unmarshal(rw.Body.Bytes(), &doc); err != nil {
		return nil, fmt.Errorf("verification handler body %q: %v", rw.Body.String(), err)
	}
	out := []string{}
	for _, e := range doc.Errors {
		out = append(out, e.Message)
	}
	return out, nil
}

func (s *sut) reset() int {
	rw := httptest.NewRecorder()
	s.resetH.ServeHTTP(rw, httptest.NewRequest("POST", "/verify/reset", nil))
	return rw.Code
}

// ---------------------------------------------------------------- model

// rec is one unmet evaluation the reference walk predicts for an exchange.
type rec struct {
	leaf *tr.Node
	side tr.Side
	text string
	form string // apiForm of the exchange
}

func kindOf(n *tr.Node) string { return strings.ToLower(strings.TrimSuffix(n.T, ".Verifier")) }

func flattenErr(err error) []string {
	if err == nil {
		return nil
	}
	if me, ok := err.(*martian.MultiError); ok {
		var out []string
		for _, e := range me.Errors() {
			out = append(out, flattenErr(e)...)
		}
		return out
	}
	return []string{asReported(err.Error())}
}

// asReported is a failure text as a JSON document can carry it: JSON strings
// are Unicode, so each byte that is not part of valid UTF-8 arrives as U+FFFD
// (what encoding/json writes); everything else - control characters, quotes,
// backslashes, U+2028, astral characters - must arrive unchanged.
func asReported(s string) string {
	if utf8.ValidString(s) {
		return s
	}
	var sb strings.Builder
	for i := 0; i < len(s); {
		r, n := utf8.DecodeRuneInString(s[i:])
		if r == utf8.RuneError && n == 1 {
			sb.WriteRune(utf8.RuneError)
		} else {
			sb.WriteString(s[i : i+n])
		}
		i += n
	}
	return sb.String()
}

// isolated feeds the message to a fresh instance of the leaf (outside any tree,
// never marked as API request) and returns what that instance then reports.
func isolated(leaf *tr.Node, side tr.Side, rq *tr.Req, rs *tr.Res) []string {
	bare := *leaf
	bare.HasScope, bare.Scope = false, nil
	r, err := parse.FromJSON(bare.JSON())
	if err != nil {
		panic(fmt.Sprintf("isolated leaf does not parse: %v: %s", err, bare.JSON()))
	}
	req := tr.RealRequest(rq)
	_, remove, err := martian.TestContext(req, nil, nil)
	if err != nil {
		panic(err)
	}
	defer remove()
	if side == tr.Request {
		mod := r.RequestModifier()
		mod.ModifyRequest(req)
		return flattenErr(mod.(verify.RequestVerifier).VerifyRequests())
	}
	mod := r.ResponseModifier()
	mod.ModifyResponse(tr.RealResponse(rs, req))
	return flattenErr(mod.(verify.ResponseVerifier).VerifyResponses())
}

// pingbackText is the standing error of a pingback verifier that has seen nothing.
func pingbackText(leaf *tr.Node) string {
	bare := *leaf
	bare.HasScope, bare.Scope = false, nil
	r, err := parse.FromJSON(bare.JSON())
	if err != nil {
		panic(err)
	}
	out := flattenErr(r.RequestModifier().(verify.RequestVerifier).VerifyRequests())
	if len(out) != 1 {
		panic(fmt.Sprintf("fresh pingback verifier reports %d errors", len(out)))
	}
	return out[0]
}

// predict walks the tree for one exchange and returns the unmet evaluations
// (with their texts), the pingback leaves the request satisfies, and any
// disagreement between documented expectation and isolated leaf.
func predict(tree *tr.Node, op *Op) (unmet []rec, pinged []*tr.Node, v kit.Verdict) {
	in := &tr.Interp{OnVerifier: func(leaf *tr.Node, side tr.Side, rq *tr.Req, rs *tr.Res) {
		if leaf.T == tr.PingbackVerifier {
			if tr.PingbackMatches(leaf, rq) {
				pinged = append(pinged, leaf)
			}
			return
		}
		want := tr.VerifierUnmet(leaf, side, rq, rs)
		got := isolated(leaf, side, rq, rs)
		switch {
		case want && len(got) == 1:
			unmet = append(unmet, rec{leaf, side, got[0], apiForm(op)})
		case !want && len(got) == 0:
		case want && len(got) > 1:
			// "one error for each time an expectation was evaluated and not met ... none duplicated"
			v.Addf("C13/leaf/"+kindOf(leaf)+"-verifier/several-errors-for-one-unmet-evaluation",
				"%s on %s %s (status %v): one evaluation of a fresh instance yields %d errors: %q", leaf.JSON(), side, rq.URLString(), statusOf(rs), len(got), got)
			unmet = append(unmet, rec{leaf, side, got[0], apiForm(op)})
		default:
			v.Addf("C13/leaf/"+kindOf(leaf)+"-verifier/isolated-instance-disagrees-with-documented-expectation",
				"%s on %s %s (status %v): documented expectation unmet=%v, a fresh instance reports %q", leaf.JSON(), side, rq.URLString(), statusOf(rs), want, got)
		}
	}}
	rq := effReq(op)
	in.Request(tree, rq)
	if !op.NoRes {
		rs := op.Res.Clone()
		rs.Req = rq
		in.Response(tree, rs)
	}
	return
}

func statusOf(rs *tr.Res) interface{} {
	if rs == nil {
		return "-"
	}
	return rs.Status
}

type slot struct {
	leaf  *tr.Node
	side  tr.Side
	cur   []string          // what the statement says a query must report
	api   []string          // evaluations of API requests: must NOT be reported
	form  map[string]string // text of an API evaluation -> apiForm
	stale []string          // recorded before a reset: must NOT be reported any more
	// pingback
	ping     bool
	seen     bool
	pingText string
}

type model struct {
	slots  []*slot
	byKey  map[string]*slot
	inElse map[int]bool
	resets int
}

func slotKey(id int, s tr.Side) string { return fmt.Sprintf("%d/%s", id, s) }

func newModel(tree *tr.Node) *model {
	m := &model{byKey: map[string]*slot{}, inElse: tr.InElse(tree)}
	for _, side := range []tr.Side{tr.Request, tr.Response} {
		for _, leaf := range tr.Verifiers(tree, side) {
			sl := &slot{leaf: leaf, side: side}
			if leaf.T == tr.PingbackVerifier {
				sl.ping, sl.pingText = true, pingbackText(leaf)
			}
			m.slots = append(m.slots, sl)
			m.byKey[slotKey(leaf.ID, side)] = sl
		}
	}
	return m
}

func (m *model) expected() []string {
	var out []string
	for _, sl := range m.slots {
		out = append(out, sl.cur...)
		if sl.ping && !sl.seen {
			out = append(out, sl.pingText)
		}
	}
	return out
}

func count(xs []string) map[string]int {
	c := map[string]int{}
	for _, x := range xs {
		c[x]++
	}
	return c
}

func sortedKeys(m map[string]int) []string {
	var ks []string
	for k := range m {
		ks = append(ks, k)
	}
	sort.Strings(ks)
	return ks
}

// take removes one occurrence of text from the pool selected by sel among
// slots satisfying ok; returns the slot it came from.
func (m *model) take(text string, sel func(*slot) *[]string, ok func(*slot) bool) *slot {
	for _, sl := range m.slots {
		if ok != nil && !ok(sl) {
			continue
		}
		pool := sel(sl)
		for i, x := range *pool {
			if x == text {
				cp := append([]string{}, (*pool)[:i]...)
				*pool = append(cp, (*pool)[i+1:]...)
				return sl
			}
		}
	}
	return nil
}

// compare explains the difference between what a query returned and what the
// model expects. Pools are consumed on copies so that later queries are
// explained independently.
func (m *model) compare(step int, what string, got []string) kit.Verdict {
	var v kit.Verdict
	want := m.expected()
	gc, wc := count(got), count(want)
	// scratch copies of the shadow pools
	scratch := &model{}
	for _, sl := range m.slots {
		c := *sl
		c.api = append([]string{}, sl.api...)
		c.stale = append([]string{}, sl.stale...)
		scratch.slots = append(scratch.slots, &c)
	}
	for _, text := range sortedKeys(gc) {
		for extra := gc[text] - wc[text]; extra > 0; extra-- {
			// Identical texts can stem from several verifiers. An extra error is
			// attributed to the first explanation that exists, trying the shapes
			// of the defects already on record first, so that a collision of
			// texts cannot turn a recorded defect into a differently named one.
			apiPool := func(s *slot) *[]string { return &s.api }
			stalePool := func(s *slot) *[]string { return &s.stale }
			sl, why := scratch.take(text, stalePool, func(s *slot) bool { return staleShape(s.side, m.inElse[s.leaf.ID]) != "verifier" }), "stale"
			if sl == nil {
				sl, why = scratch.take(text, apiPool, func(s *slot) bool { return apiKindOnRecord[kindOf(s.leaf)] }), "api"
			}
			if sl == nil {
				sl, why = scratch.take(text, apiPool, nil), "api"
			}
			if sl == nil {
				sl, why = scratch.take(text, stalePool, nil), "stale"
			}
			if sl != nil && why == "api" {
				v.Addf(apiSig(sl.form[text], kindOf(sl.leaf)),
					"step %d (%s): %q is reported although the request was addressed to the proxy's own API (marked: %s; verifier %s)", step, what, text, sl.form[text], sl.leaf.JSON())
				continue
			}
			if sl != nil {
				v.Addf("C13/reset/"+staleShape(sl.side, m.inElse[sl.leaf.ID])+"/failure-survives-reset",
					"step %d (%s): %q was recorded before the last reset and is still reported (verifier %s, %s side)", step, what, text, sl.leaf.JSON(), sl.side)
				continue
			}
			v.Addf("C13/query/unexplained-error/reported-but-never-recorded", "step %d (%s): %q is reported %d times, the model expects %d; got %q want %q", step, what, text, gc[text], wc[text], got, want)
		}
	}
	for _, text := range sortedKeys(wc) {
		if gc[text] < wc[text] {
			v.Addf("C13/query/unmet-expectation/lost", "step %d (%s): %q expected %d times, reported %d times; got %q want %q", step, what, text, wc[text], gc[text], got, want)
		}
	}
	return v
}

// staleShape names the position of a verifier for the reset signatures.
func staleShape(side tr.Side, inElse bool) string {
	if side == tr.Response && inElse {
		return "response-verifier-in-filter-else"
	}
	return "verifier"
}

// apiKindOnRecord: verifier kinds whose missing API exemption is on record
// (only used to order the explanations tried for an extra error).
var apiKindOnRecord = map[string]bool{"header": true, "method": true, "failure": true}

func (m *model) applyExchange(unmet []rec, pinged []*tr.Node, api bool) {
	for _, r := range unmet {
		sl := m.byKey[slotKey(r.leaf.ID, r.side)]
		if sl == nil {
			panic("evaluation reached a verifier the verification walk does not cover: " + string(r.leaf.JSON()))
		}
		if api {
			sl.api = append(sl.api, r.text)
			if sl.form == nil {
				sl.form = map[string]string{}
			}
			sl.form[r.text] = r.form
		} else {
			sl.cur = append(sl.cur, r.text)
		}
	}
	if !api {
		for _, leaf := range pinged {
			m.byKey[slotKey(leaf.ID, tr.Request)].seen = true
		}
	}
}

func (m *model) applyReset() {
	m.resets++
	for _, sl := range m.slots {
		// Everything recorded so far must be gone after a reset; remember it so
		// that a survivor can be named.
		sl.stale = append(append(sl.stale, sl.cur...), sl.api...)
		sl.cur, sl.api, sl.seen = nil, nil, false
	}
}

func dedupe(v kit.Verdict) kit.Verdict {
	seen := map[string]bool{}
	var out kit.Verdict
	for _, f := range v {
		if !seen[f.Sig] {
			seen[f.Sig] = true
			out = append(out, f)
		}
	}
	return out
}

func runSequential(c Case) kit.Verdict {
	s, v := newSUT(c.Tree)
	if v != nil {
		return v
	}
	m := newModel(c.Tree)
	check := func(step int, what string) {
		got, err := s.query()
		if err != nil {
			v.Addf("C13/query/handler/bad-answer", "step %d (%s): %v", step, what, err)
			return
		}
		v = append(v, m.compare(step, what, got)...)
	}
	check(-1, "fresh configuration")
	for i := range c.Ops {
		op := &c.Ops[i]
		switch op.K {
		case "X":
			unmet, pinged, lv := predict(c.Tree, op)
			v = append(v, lv...)
			if err := s.exchange(op); errors.Is(err, errBodyConsumed) {
				v.Addf("C13/traffic/request-body-consumed", "step %d: %v", i, err)
			} else if err != nil {
				v.Addf("C13/traffic/verifier-returned-error", "step %d: %v (verifiers must not fail the message)", i, err)
			}
			m.applyExchange(unmet, pinged, op.API)
			check(i, "after exchange")
		case "V":
			check(i, "query")
		case "Z":
			if code := s.reset(); code != 204 {
				v.Addf("C13/reset/handler/status", "step %d: reset handler answered %d, want 204", i, code)
			}
			m.applyReset()
			check(i, "after reset")
		}
	}
	v = dedupe(v)
	if len(v) > 0 {
		v[0].Msg += "\nconfiguration: " + string(c.Tree.JSON())
	}
	return v
}

// ---------------------------------------------------------------- shape statistics

type shape struct {
	depth          int
	kinds          map[string]bool
	verifierInElse bool
	resInElse      bool // a response-side verifier in an else branch
	notUnderFifo   bool // a verifier with no FIFO group above it
	nVerifiers     int
}

func shapeOf(root *tr.Node) shape {
	s := shape{kinds: map[string]bool{}, depth: root.Depth()}
	inElse := tr.InElse(root)
	var rec func(n *tr.Node, underFifo bool)
	rec = func(n *tr.Node, underFifo bool) {
		if n == nil {
			return
		}
		if tr.IsVerifier(n.T) {
			s.nVerifiers++
			s.kinds[kindOf(n)] = true
			if inElse[n.ID] {
				s.verifierInElse = true
				if n.Acts(tr.Response) {
					s.resInElse = true
				}
			}
			if !underFifo {
				s.notUnderFifo = true
			}
		}
		for _, k := range n.Kids {
			rec(k, underFifo || n.T == tr.Fifo)
		}
		rec(n.Then, underFifo)
		rec(n.Else, underFifo)
	}
	rec(root, false)
	return s
}

func opStats(ops []Op) (resets, apis, queries, exchanges int) {
	for _, op := range ops {
		switch op.K {
		case "Z":
			resets++
		case "V":
			queries++
		case "X":
			exchanges++
			if op.API {
				apis++
			}
		}
	}
	return
}

func nontrivial(c Case) bool {
	s := shapeOf(c.Tree)
	resets, apis, _, _ := opStats(c.Ops)
	return s.nVerifiers > 0 && (s.verifierInElse || s.depth >= 3 || resets >= 2 || apis >= 1)
}

// dynStats replays the model alone to learn what the history exercises.
func dynStats(c Case) (anyUnmet, unmetThenReset, apiUnmet, elseUnmet bool) {
	inElse := tr.InElse(c.Tree)
	pending := false
	for i := range c.Ops {
		op := &c.Ops[i]
		switch op.K {
		case "X":
			in := &tr.Interp{OnVerifier: func(leaf *tr.Node, side tr.Side, rq *tr.Req, rs *tr.Res) {
				if leaf.T == tr.PingbackVerifier || !tr.VerifierUnmet(leaf, side, rq, rs) {
					return
				}
				if op.API {
					apiUnmet = true
					return
				}
				anyUnmet, pending = true, true
				if inElse[leaf.ID] {
					elseUnmet = true
				}
			}}
			rq := effReq(op)
			in.Request(c.Tree, rq)
			if !op.NoRes {
				rs := op.Res.Clone()
				rs.Req = rq
				in.Response(c.Tree, rs)
			}
		case "Z":
			if pending {
				unmetThenReset = true
			}
			pending = false
		}
	}
	return
}

func appendOnce(cl []string, x string) []string {
	for _, y := range cl {
		if y == x {
			return cl
		}
	}
	return append(cl, x)
}

func classes(c Case) []string {
	var cl []string
	s := shapeOf(c.Tree)
	for _, k := range []string{"status", "header", "method", "url", "querystring", "failure", "pingback"} {
		if s.kinds[k] {
			cl = append(cl, "verifier:"+k)
		}
	}
	if s.verifierInElse {
		cl = append(cl, "verifier-in-else")
	}
	if s.resInElse {
		cl = append(cl, "response-verifier-in-else")
	}
	if s.depth >= 3 {
		cl = append(cl, "depth>=3")
	}
	if s.notUnderFifo {
		cl = append(cl, "verifier-not-under-fifo")
	}
	c.Tree.Walk(func(n *tr.Node, _ int) {
		if n.T == tr.URLRegexFilter && (len(tr.Verifiers(n, tr.Request))+len(tr.Verifiers(n, tr.Response)) > 0) {
			cl = appendOnce(cl, "verifier-under-url-regex-filter")
		}
		if n.T == tr.SkipRoundTrip && n.Acts(tr.Request) && s.kinds["status"] {
			cl = appendOnce(cl, "skip-roundtrip-and-status-verifier")
		}
	})
	resets, apis, _, _ := opStats(c.Ops)
	if resets >= 2 {
		cl = append(cl, "resets>=2")
	}
	if apis >= 1 {
		cl = append(cl, "has-api-request")
	}
	for i := range c.Ops {
		if f := apiForm(&c.Ops[i]); f != "" {
			cl = appendOnce(cl, "api-mark:"+f)
		}
		if c.Ops[i].K == "X" && hasOddContent(c.Ops[i].Req, c.Ops[i].Res) {
			cl = appendOnce(cl, "odd-bytes-in-message")
			if !c.Ops[i].API && oddReachesReport(c.Tree, &c.Ops[i]) {
				cl = appendOnce(cl, "odd-bytes-in-recorded-failure")
			}
		}
		if c.Ops[i].K == "X" && hasBadQuery(c.Ops[i].Req) {
			cl = appendOnce(cl, "unparsable-query")
			if s.kinds["querystring"] {
				cl = appendOnce(cl, "unparsable-query-with-querystring-verifier")
			}
		}
	}
	au, ur, ap, eu := dynStats(c)
	if au {
		cl = append(cl, "unmet-recorded")
	}
	if ur {
		cl = append(cl, "unmet-then-reset")
	}
	if ap {
		cl = append(cl, "api-request-would-be-unmet")
	}
	if eu {
		cl = append(cl, "unmet-in-else-branch")
	}
	return cl
}

// ---------------------------------------------------------------- generators

var (
	uni  = tr.Uni
	pick = tr.Pick
)

type gen struct {
	t        *rapid.T
	next     int
	maxDepth int
	maxWidth int
	noSkip   bool
}

func (g *gen) id() int { g.next++; return g.next }

func (g *gen) verifier() *tr.Node {
	t := g.t
	n := &tr.Node{ID: g.id(), P: map[string]string{}}
	switch uni(t, "vkind", 8) {
	case 0:
		n.T, n.P = tr.StatusVerifier, nil
		n.N = []int{200, 404}[uni(t, "code", 2)]
	case 1, 7:
		n.T = tr.HeaderVerifier
		n.P["name"] = pick(t, "hname", tr.HdrNames)
		n.P["value"] = pick(t, "hval", append([]string{"", ""}, tr.HeaderVals...))
	case 2:
		n.T = tr.MethodVerifier
		n.P["method"] = pick(t, "method", []string{"GET", "POST"})
	case 3:
		n.T = tr.URLVerifier
		g.urlParts(n, tr.HostPatterns)
	case 4:
		n.T = tr.QueryVerifier
		n.P["name"] = pick(t, "qname", tr.QNames)
		n.P["value"] = pick(t, "qval", []string{"", "1", "2"})
	case 5:
		n.T = tr.FailureVerifier
		n.P["message"] = fmt.Sprintf("fail-%d", n.ID)
	case 6:
		n.T = tr.PingbackVerifier
		g.urlParts(n, append(append([]string{}, tr.Hosts...), tr.PortedHosts...))
	}
	tr.GenScope(t, n)
	return n
}

func (g *gen) urlParts(n *tr.Node, hostChoices []string) {
	t := g.t
	if uni(t, "uscheme", 3) == 0 {
		n.P["scheme"] = pick(t, "scheme", tr.Schemes)
	}
	if uni(t, "uhost", 2) == 0 {
		n.P["host"] = pick(t, "host", hostChoices)
	}
	if uni(t, "upath", 2) == 0 {
		n.P["path"] = pick(t, "path", tr.Paths)
	}
	if uni(t, "uquery", 4) == 0 {
		n.P["query"] = pick(t, "qname", tr.QNames) + "=" + pick(t, "qval", tr.Vals)
	}
}

func (g *gen) node(depth int) *tr.Node {
	t := g.t
	k := uni(t, "kind", 100)
	if depth >= g.maxDepth {
		k = 0
	} else if depth == 1 && k < 40 {
		k = 40 + k // a bare verifier as the whole configuration comes with maxdepth 1
	}
	switch {
	case k < 33:
		return g.verifier()
	case k < 40:
		n := &tr.Node{ID: g.id(), T: tr.Noop, P: map[string]string{"name": "inert"}}
		if k >= 35 && !g.noSkip {
			// the exchange's round trip is skipped (the proxy answers itself):
			// its response is traffic like any other
			n.T, n.P = tr.SkipRoundTrip, nil
		}
		tr.GenScope(t, n)
		return n
	case k < 68:
		n := &tr.Node{ID: g.id(), T: tr.Fifo, Agg: rapid.Bool().Draw(t, "agg")}
		w := 1 + uni(t, "width", g.maxWidth)
		for i := 0; i < w; i++ {
			n.Kids = append(n.Kids, g.node(depth+1))
		}
		tr.GenScope(t, n)
		return n
	default:
		n := &tr.Node{ID: g.id(), P: map[string]string{}}
		if uni(t, "urlregex", 6) == 0 {
			// the sixth filter built on filter.Filter: a regular expression on the whole URL
			n.T = tr.URLRegexFilter
			n.P["regex"] = pick(t, "regex", []string{`example\.com`, `/x`, `^https`, `q=1`, `\.org/`})
		} else {
			tr.GenFilterCond(t, n)
		}
		n.Then = g.node(depth + 1)
		if uni(t, "else", 4) > 0 {
			n.Else = g.node(depth + 1)
		}
		tr.GenScope(t, n)
		return n
	}
}

func genTree(t *rapid.T) *tr.Node { return genTreeOpt(t, false) }

// genTreeOpt: noSkip keeps skip.RoundTrip out of the tree (the end-to-end
// variant scripts the origin's answers).
func genTreeOpt(t *rapid.T, noSkip bool) *tr.Node {
	g := &gen{t: t, maxDepth: 1 + uni(t, "maxdepth", 4), maxWidth: kit.N(3, 4), noSkip: noSkip}
	return g.node(1)
}

// apiURLForms: scheme, host, path ("" = keep the drawn path) of requests a
// client addresses to the proxy's API: the virtual host, and the API server's
// own address in several spellings (the second one is already exactly what the
// forwarder forwards to).
var apiURLForms = [][3]string{
	{"http", "martian.proxy", "/verify"},
	{"https", "martian.proxy", "/verify/reset"},
	{"http", apiTarget, "/verify"},
	{"http", apiTarget, ""},
	{"http", strings.ToUpper(apiTarget), "/x"},
	{"https", apiTarget, "/configure"},
	{"http", "martian.proxy", ""},
}

// unparsableQueriesOK: a request with an unparsable query is well defined for
// the tree when at most one querystring.Verifier can ever evaluate it (exactly
// one error: the form fails to parse). Two of them on one request interact
// through http.Request.ParseForm's cache, which the statement says nothing
// about; such trees only see parsable queries.
func unparsableQueriesOK(tree *tr.Node) bool {
	n := 0
	tree.Walk(func(x *tr.Node, _ int) {
		if x.T == tr.QueryVerifier {
			n++
		}
	})
	return n <= 1
}

func hasBadQuery(rq *tr.Req) bool {
	_, err := url.ParseQuery(rq.Query)
	return err != nil
}

// oddContent puts content into the exchange that a failure text will carry:
// bytes that are not UTF-8, control bytes, DEL, quotes and backslashes,
// U+2028, astral characters - as a query value, a request header value or a
// response header value (the first nvals header values only).
func oddContent(t *rapid.T, rq *tr.Req, rs *tr.Res, nvals int) {
	switch uni(t, "oddwhere", 3) {
	case 0:
		pair := pick(t, "oddpair", tr.OddQueryPairs)
		if rq.Query == "" || uni(t, "oddalone", 2) == 0 {
			rq.Query = pair
		} else {
			rq.Query += "&" + pair
		}
	case 1:
		rq.Header[pick(t, "oddname", []string{"X-A", "X-B"})] = []string{tr.OddHeaderValues[uni(t, "oddval", nvals)]}
	default:
		if rs != nil {
			rs.Header[pick(t, "oddname", []string{"X-A", "X-B"})] = []string{tr.OddHeaderValues[uni(t, "oddval", nvals)]}
		}
	}
}

// oddReachesReport: the exchange leaves a header or query-string failure
// behind (the texts of those quote the message's values).
func oddReachesReport(tree *tr.Node, op *Op) bool {
	hit := false
	in := &tr.Interp{OnVerifier: func(leaf *tr.Node, side tr.Side, rq *tr.Req, rs *tr.Res) {
		if (leaf.T == tr.HeaderVerifier || leaf.T == tr.QueryVerifier) && tr.VerifierUnmet(leaf, side, rq, rs) {
			hit = true
		}
	}}
	rq := effReq(op)
	in.Request(tree, rq)
	if !op.NoRes {
		rs := op.Res.Clone()
		rs.Req = rq
		in.Response(tree, rs)
	}
	return hit
}

func hasOddContent(rq *tr.Req, rs *tr.Res) bool {
	odd := func(s string) bool {
		if !utf8.ValidString(s) {
			return true
		}
		for _, r := range s {
			if r < 0x20 || r == 0x7f || r == '"' || r == '\\' || r == 0x2028 || r > 0xffff {
				return true
			}
		}
		return false
	}
	if q, err := url.ParseQuery(rq.Query); err == nil {
		for _, vs := range q {
			for _, v := range vs {
				if odd(v) {
					return true
				}
			}
		}
	}
	for _, h := range []map[string][]string{rq.Header, func() map[string][]string {
		if rs == nil {
			return nil
		}
		return rs.Header
	}()} {
		for _, vs := range h {
			for _, v := range vs {
				if odd(v) {
					return true
				}
			}
		}
	}
	return false
}

func genExchange(t *rapid.T, badQueryOK bool) Op {
	rq, rs := tr.GenPairOpt(t, false)
	if badQueryOK && uni(t, "badquery", 5) == 0 {
		// ';' separator, stray '%', bad escape: the pairs around it still decode
		bad := pick(t, "badpair", tr.BadQueryPairs)
		switch {
		case rq.Query == "":
			rq.Query = bad
		case uni(t, "badfirst", 2) == 0:
			rq.Query = bad + "&" + rq.Query
		default:
			rq.Query += "&" + bad
		}
	}
	if uni(t, "odd", 4) == 0 {
		oddContent(t, &rq, &rs, len(tr.OddHeaderValues))
	}
	if uni(t, "portedhost", 5) == 0 {
		// authority with a port, bracketed IPv6 literal with and without one
		rq.Host = pick(t, "phost", tr.PortedHosts)
		if rq.HostH != "" {
			rq.HostH = rq.Host
		}
	}
	op := Op{K: "X", Req: &rq, Res: &rs}
	op.API = uni(t, "api", 4) == 0
	if op.API && uni(t, "direct", 4) > 0 {
		// addressed to the API the way a client does it: by URL, marked by the real forwarder
		op.Fwd = true
		form := apiURLForms[uni(t, "apiurl", len(apiURLForms))]
		rq.Scheme, rq.Host, rq.HostH = form[0], form[1], form[1]
		if form[2] != "" {
			rq.Path = form[2]
		}
	}
	op.NoRes = uni(t, "nores", 6) == 0
	if op.NoRes {
		op.Res = nil
	}
	return op
}

func genCase(t *rapid.T) Case {
	c := Case{Tree: genTree(t)}
	badOK := unparsableQueriesOK(c.Tree)
	n := 1 + uni(t, "nops", kit.N(30, 80))
	for i := 0; i < n; i++ {
		switch k := uni(t, "op", 10); {
		case k < 6:
			c.Ops = append(c.Ops, genExchange(t, badOK))
		case k < 8:
			c.Ops = append(c.Ops, Op{K: "V"})
		default:
			c.Ops = append(c.Ops, Op{K: "Z"})
		}
	}
	return c
}

var seqRule = "verifier-bearing configuration trees (fifo groups, url/header/querystring/method/cookie filters with verifiers in either branch, status/header/method/url/querystring/failure/pingback verifiers, scope drawn at every node, depth <= 4) installed through the configuration endpoint; histories of <= 30|80 exchanges (1 in 4 addressed to the proxy API: 3 of 4 of those by URL - virtual host martian.proxy or the API server address itself in several spellings - and marked by the real api.Forwarder, the rest by ctx.APIRequest()), queries and resets through the real verify and reset handlers; trees with at most one querystring.Verifier also get requests whose query does not parse (1 exchange in 5: semicolon separator, stray percent sign, bad escape); after every step the handler's error list is compared as a multiset with the model; non-trivial = a verifier in an else-branch, nesting depth >= 3, >= 2 resets, or an API request"

var propSequential = &kit.Prop[Case]{
	ID: "C13", Name: "histories", Rule: "rapid-drawn " + seqRule,
	Gen: genCase, Run: runSequential, NonTrivial: nontrivial, Classes: classes,
	Gates: map[string]float64{
		"verifier-in-else": 0.15, "response-verifier-in-else": 0.05, "resets>=2": 0.30, "has-api-request": 0.40,
		"unmet-recorded": 0.40, "unmet-then-reset": 0.25, "api-request-would-be-unmet": 0.20, "unmet-in-else-branch": 0.08,
		"unparsable-query-with-querystring-verifier": 0.10, "odd-bytes-in-message": 0.5, "odd-bytes-in-recorded-failure": 0.15, "verifier-under-url-regex-filter": 0.05, "skip-roundtrip-and-status-verifier": 0.02, "api-mark:direct": 0.15, "api-mark:url-virtual-host": 0.25, "api-mark:url-already-forwarder-target": 0.25, "api-mark:url-names-target-in-other-spelling": 0.25,
	},
}

func TestHistories(t *testing.T) {
	if kit.Race() {
		t.Skip("sequential histories add nothing under the race detector")
	}
	propSequential.Check(t, kit.N(3000, 20000))
}

// ---------------------------------------------------------------- bounded exhaustive sub-space

// TestEnum: every filter kind x {then, else} x {every verifier type on the
// side(s) it supports} x {unmet, unmet-as-API-request} followed by query,
// reset, query. This is the matrix in which the anticipated defects live.
var propEnum = &kit.Prop[Case]{
	ID: "C13", Name: "enum-branch-matrix",
	Rule: "ALL 6 filter kinds built on filter.Filter (url, header, querystring, method, cookie, url.RegexFilter) x {modifier, else} branch x 7 verifier types x {bare filter, filter inside a fifo group} x {ordinary, API marked directly, API by virtual host through the forwarder, API by the forwarder's own target URL through the forwarder} exchange that reaches the verifier with an unmet expectation, then query, reset, query; plus every verifier type after a skip.RoundTrip in a group; plus 4 unparsable query pairs x {alone, after, before a pair that decodes} x expected key {decoded, not decoded} x {bare, in a group} on one querystring.Verifier; non-trivial = same rule as the histories check",
	Run:  runSequential, NonTrivial: nontrivial, Classes: classes,
}

func TestEnum(t *testing.T) {
	if kit.Race() {
		t.Skip()
	}
	rq := tr.Req{Method: "PUT", Scheme: "http", Host: "example.com", Path: "/x", Query: "p=1", HostH: "example.com",
		Header: map[string][]string{"X-B": {"1"}, "Cookie": {"c=1"}}}
	rs := tr.Res{Status: 500, Header: map[string][]string{"X-B": {"1"}, "Set-Cookie": {"c=1"}}}
	// conditions that hold / fail on both sides of that exchange
	conds := map[string][2]map[string]string{
		tr.URLFilter:      {{"path": "/x"}, {"path": "/y"}},
		tr.HeaderFilter:   {{"name": "X-B", "value": "1"}, {"name": "X-B", "value": "2"}},
		tr.QueryFilter:    {{"name": "p", "value": "1"}, {"name": "q"}},
		tr.MethodFilter:   {{"method": "put"}, {"method": "GET"}},
		tr.CookieFilter:   {{"name": "c"}, {"name": "d"}},
		tr.URLRegexFilter: {{"regex": "/x"}, {"regex": "/y"}},
	}
	verifiers := []*tr.Node{
		{T: tr.StatusVerifier, N: 200},
		{T: tr.HeaderVerifier, P: map[string]string{"name": "X-A"}},
		{T: tr.MethodVerifier, P: map[string]string{"method": "GET"}},
		{T: tr.URLVerifier, P: map[string]string{"path": "/y"}},
		{T: tr.QueryVerifier, P: map[string]string{"name": "q"}},
		{T: tr.FailureVerifier, P: map[string]string{"message": "fail"}},
		{T: tr.PingbackVerifier, P: map[string]string{"path": "/x"}},
	}
	propEnum.Enumerate(t, func(yield func(Case) bool) {
		// an exchange whose round trip is skipped is traffic like any other
		for _, vt := range verifiers {
			for wrap := 0; wrap < 2; wrap++ {
				v := *vt
				v.ID = 3
				root := &tr.Node{ID: 1, T: tr.Fifo, Kids: []*tr.Node{{ID: 2, T: tr.SkipRoundTrip}, &v}}
				if wrap == 1 {
					root = &tr.Node{ID: 5, T: tr.Fifo, Kids: []*tr.Node{root}}
				}
				q, s := rq, rs
				if !yield(Case{Tree: root, Ops: []Op{{K: "X", Req: &q, Res: &s}, {K: "V"}, {K: "Z"}, {K: "V"}}}) {
					return
				}
			}
		}
		for _, fk := range []string{tr.URLFilter, tr.HeaderFilter, tr.QueryFilter, tr.MethodFilter, tr.CookieFilter, tr.URLRegexFilter} {
			for branch := 0; branch < 2; branch++ {
				for _, vt := range verifiers {
					for wrap := 0; wrap < 2; wrap++ {
						for api := 0; api < 4; api++ {
							v := *vt
							v.ID = 3
							f := &tr.Node{ID: 2, T: fk, P: conds[fk][branch]}
							other := &tr.Node{ID: 4, T: tr.Noop, P: map[string]string{"name": "inert"}}
							if branch == 0 {
								f.Then, f.Else = &v, other
							} else {
								f.Then, f.Else = other, &v
							}
							root := f
							if wrap == 1 {
								root = &tr.Node{ID: 1, T: tr.Fifo, Kids: []*tr.Node{f}}
							}
							q, s := rq, rs
							switch api {
							case 2:
								q.Scheme, q.Host, q.HostH = "https", "martian.proxy", "martian.proxy"
							case 3:
								q.Scheme, q.Host, q.HostH = "http", apiTarget, apiTarget
							}
							ops := []Op{{K: "X", Req: &q, Res: &s, API: api >= 1, Fwd: api >= 2}, {K: "V"}, {K: "Z"}, {K: "V"}}
							if !yield(Case{Tree: root, Ops: ops}) {
								return
							}
						}
					}
				}
			}
		}
		// one querystring.Verifier, one request whose query does not parse:
		// exactly one error, whether or not the expected key is among the pairs
		// that did decode
		for _, bad := range tr.BadQueryPairs {
			for _, key := range []string{"p", "k"} {
				for _, query := range []string{bad, "p=1&" + bad, bad + "&p=1"} {
					for wrap := 0; wrap < 2; wrap++ {
						root := &tr.Node{ID: 3, T: tr.QueryVerifier, P: map[string]string{"name": key}}
						if wrap == 1 {
							root = &tr.Node{ID: 1, T: tr.Fifo, Kids: []*tr.Node{root}}
						}
						q, s := rq, rs
						q.Query = query
						ops := []Op{{K: "X", Req: &q, Res: &s}, {K: "V"}, {K: "Z"}, {K: "V"}}
						if !yield(Case{Tree: root, Ops: ops}) {
							return
						}
					}
				}
			}
		}
	})
}

// ---------------------------------------------------------------- shapes with signatures of their own

// runShape is runSequential with the signature rebuilt from the case's shape:
// C13/<clause>/<shape>/<class>.
func runShape(c Case) kit.Verdict {
	v := runSequential(c)
	for i := range v {
		seg := strings.Split(v[i].Sig, "/")
		if len(seg) >= 3 {
			v[i].Sig = "C13/" + seg[1] + "/" + c.Shape + "/" + seg[len(seg)-1]
		}
	}
	return dedupe(v)
}

var propShapes = &kit.Prop[Case]{
	ID: "C13", Name: "enum-shapes",
	Rule: "ALL of: 7 verifier types below a port.Filter / a header.RegexFilter whose condition holds x {bare, inside a group}: unmet exchange, query, reset, query (the statement says 'under FIFO groups and filters'); a querystring.Verifier and a POST whose url-encoded body, not its query, carries the expected parameter (and the body must be left to forward); header.Verifier{Content-Length} on a response carrying Content-Length: 0; non-trivial = all",
	Run:  runShape,
}

func TestEnumShapes(t *testing.T) {
	if kit.Race() {
		t.Skip()
	}
	rq := tr.Req{Method: "PUT", Scheme: "http", Host: "example.com", Path: "/x", Query: "p=1", HostH: "example.com",
		Header: map[string][]string{"X-B": {"1"}}}
	rs := tr.Res{Status: 500, Header: map[string][]string{"X-B": {"1"}}}
	verifiers := []*tr.Node{
		{T: tr.StatusVerifier, N: 200},
		{T: tr.HeaderVerifier, P: map[string]string{"name": "X-A"}},
		{T: tr.MethodVerifier, P: map[string]string{"method": "GET"}},
		{T: tr.URLVerifier, P: map[string]string{"path": "/y"}},
		{T: tr.QueryVerifier, P: map[string]string{"name": "q"}},
		{T: tr.FailureVerifier, P: map[string]string{"message": "fail"}},
		{T: tr.PingbackVerifier, P: map[string]string{"path": "/never"}},
	}
	wrapped := func(n *tr.Node, wrap int) *tr.Node {
		if wrap == 1 {
			return &tr.Node{ID: 1, T: tr.Fifo, Kids: []*tr.Node{n}}
		}
		return n
	}
	std := func(q tr.Req, s tr.Res, form string) []Op {
		return []Op{{K: "X", Req: &q, Res: &s, Form: form}, {K: "V"}, {K: "Z"}, {K: "V"}}
	}
	propShapes.Enumerate(t, func(yield func(Case) bool) {
		for _, f := range []*tr.Node{
			{T: tr.PortFilter, N: 80},
			{T: tr.RegexFilter, P: map[string]string{"header": "X-B", "regex": "^1$"}},
		} {
			shape := map[string]string{tr.PortFilter: "verifier-under-port-filter", tr.RegexFilter: "verifier-under-regex-filter"}[f.T]
			for _, vt := range verifiers {
				for wrap := 0; wrap < 2; wrap++ {
					v, ff := *vt, *f
					v.ID, ff.ID, ff.Then = 3, 2, &v
					if !yield(Case{Tree: wrapped(&ff, wrap), Ops: std(rq, rs, ""), Shape: shape}) {
						return
					}
				}
			}
		}
		for wrap := 0; wrap < 2; wrap++ {
			// the expected parameter is in the body only: the query string does not have it
			q := rq
			q.Method = "POST"
			root := wrapped(&tr.Node{ID: 3, T: tr.QueryVerifier, P: map[string]string{"name": "k"}}, wrap)
			if !yield(Case{Tree: root, Ops: std(q, rs, "k=1&z=2"), Shape: "querystring-verifier-form-body"}) {
				return
			}
			// a response that carries Content-Length: 0 has the header
			s := rs
			s.CL = 0
			root = wrapped(&tr.Node{ID: 3, T: tr.HeaderVerifier, HasScope: true, Scope: []string{"response"}, P: map[string]string{"name": "Content-Length"}}, wrap)
			if !yield(Case{Tree: root, Ops: std(rq, s, ""), Shape: "header-verifier-content-length-zero-response"}) {
				return
			}
		}
	})
}

// ---------------------------------------------------------------- concurrent variant

// ConcCase: traffic goroutines run their exchanges against one tree while
// control goroutines issue queries ("V") and resets ("Z").
type ConcCase struct {
	Tree    *tr.Node `json:"tree"`
	Traffic [][]Op   `json:"traffic"`          // one list of exchanges per traffic goroutine
	Control []string `json:"control"`          // one program per control goroutine: V query, Z reset through the handler, R reset by direct calls
	Direct  bool     `json:"direct,omitempty"` // the tree (root: a fifo group) is wired without a martianhttp.Modifier around it
	Yield   int      `json:"yield"`
}

type tstamp struct {
	start, end int64
	unmet      []rec
	api        bool
}

type cstamp struct {
	kind       byte
	start, end int64
	got        []string
	code       int
	err        error
}

func runConcurrent(c ConcCase) kit.Verdict {
	s, v := newSUTWired(c.Tree, c.Direct)
	if v != nil {
		return v
	}
	inElse := tr.InElse(c.Tree)
	pingTexts := map[string]bool{}
	for _, leaf := range tr.Verifiers(c.Tree, tr.Request) {
		if leaf.T == tr.PingbackVerifier {
			pingTexts[pingbackText(leaf)] = true
		}
	}
	// predictions do not depend on the interleaving: verifier trees modify nothing
	traffic := make([][]tstamp, len(c.Traffic))
	for g, ops := range c.Traffic {
		traffic[g] = make([]tstamp, len(ops))
		for i := range ops {
			unmet, _, lv := predict(c.Tree, &ops[i])
			v = append(v, lv...)
			traffic[g][i].unmet, traffic[g][i].api = unmet, ops[i].API
		}
	}
	control := make([][]cstamp, len(c.Control))
	var clock int64
	var wg sync.WaitGroup
	var mu sync.Mutex
	for g := range c.Traffic {
		wg.Add(1)
		go func(g int) {
			defer wg.Done()
			for i := range c.Traffic[g] {
				st := &traffic[g][i]
				st.start = atomic.AddInt64(&clock, 1)
				err := s.exchange(&c.Traffic[g][i])
				st.end = atomic.AddInt64(&clock, 1)
				if err != nil {
					mu.Lock()
					v.Addf("C13/traffic/verifier-returned-error", "traffic goroutine %d op %d: %v", g, i, err)
					mu.Unlock()
				}
				for y := 0; y < c.Yield; y++ {
					runtime.Gosched()
				}
			}
		}(g)
	}
	for g, prog := range c.Control {
		control[g] = make([]cstamp, len(prog))
		wg.Add(1)
		go func(g int, prog string) {
			defer wg.Done()
			for i := 0; i < len(prog); i++ {
				st := &control[g][i]
				st.kind = prog[i]
				st.start = atomic.AddInt64(&clock, 1)
				switch prog[i] {
				case 'V':
					st.got, st.err = s.query()
				case 'R':
					s.resetDirect()
					st.code = 204
				default:
					st.code = s.reset()
				}
				st.end = atomic.AddInt64(&clock, 1)
				runtime.Gosched()
			}
		}(g, prog)
	}
	wg.Wait()
	// final query after everything has returned
	final := cstamp{kind: 'V', start: atomic.AddInt64(&clock, 1)}
	final.got, final.err = s.query()
	final.end = atomic.AddInt64(&clock, 1)

	var resets, queries []cstamp
	for _, prog := range control {
		for _, st := range prog {
			if st.kind == 'Z' || st.kind == 'R' {
				resets = append(resets, st)
				if st.code != 204 {
					v.Addf("C13/reset/handler/status", "reset handler answered %d, want 204", st.code)
				}
			} else {
				queries = append(queries, st)
			}
		}
	}
	queries = append(queries, final)

	for _, q := range queries {
		if q.err != nil {
			v.Addf("C13/query/handler/bad-answer", "query [%d,%d]: %v", q.start, q.end, q.err)
			continue
		}
		var must, may, apiPool, stalePool []rec
		for _, ops := range traffic {
			for _, o := range ops {
				if o.start >= q.end {
					continue // started after the query returned
				}
				if o.api {
					apiPool = append(apiPool, o.unmet...)
					continue
				}
				erased, maybeErased := false, false
				for _, z := range resets {
					if o.end < z.start && z.end < q.start {
						erased = true // recorded, then reset, then queried: must be gone
					}
					if z.end > o.start && z.start < q.end {
						maybeErased = true // a reset may have fallen between recording and query
					}
				}
				switch {
				case erased:
					stalePool = append(stalePool, o.unmet...)
				case o.end < q.start && !maybeErased:
					must = append(must, o.unmet...)
					may = append(may, o.unmet...)
				default:
					may = append(may, o.unmet...)
				}
			}
		}
		texts := func(rs []rec) []string {
			var out []string
			for _, r := range rs {
				out = append(out, r.text)
			}
			return out
		}
		var got []string
		for _, g := range q.got {
			if !pingTexts[g] { // the standing pingback error is decided by the sequential check only
				got = append(got, g)
			}
		}
		gc, mustC, mayC := count(got), count(texts(must)), count(texts(may))
		for _, text := range sortedKeys(mustC) {
			if gc[text] < mustC[text] {
				v.Addf("C13/concurrent/recorded-failure-lost", "query [%d,%d]: %q was recorded %d times by exchanges that returned before the query began (no reset in between) but is reported %d times", q.start, q.end, text, mustC[text], gc[text])
			}
		}
		takeRec := func(pool *[]rec, text string, ok func(rec) bool) *rec {
			for i := range *pool {
				if (*pool)[i].text == text && (ok == nil || ok((*pool)[i])) {
					r := (*pool)[i]
					*pool = append(append([]rec{}, (*pool)[:i]...), (*pool)[i+1:]...)
					return &r
				}
			}
			return nil
		}
		for _, text := range sortedKeys(gc) {
			for extra := gc[text] - mayC[text]; extra > 0; extra-- {
				r, why := takeRec(&stalePool, text, func(r rec) bool { return staleShape(r.side, inElse[r.leaf.ID]) != "verifier" }), "stale"
				if r == nil {
					r, why = takeRec(&apiPool, text, func(r rec) bool { return apiKindOnRecord[kindOf(r.leaf)] }), "api"
				}
				if r == nil {
					r, why = takeRec(&apiPool, text, nil), "api"
				}
				if r == nil {
					r, why = takeRec(&stalePool, text, nil), "stale"
				}
				if r != nil && why == "api" {
					v.Addf(apiSig(r.form, kindOf(r.leaf)), "query [%d,%d]: %q is reported although the request was addressed to the proxy's own API (marked: %s)", q.start, q.end, text, r.form)
					continue
				}
				if r != nil {
					v.Addf("C13/reset/"+staleShape(r.side, inElse[r.leaf.ID])+"/failure-survives-reset", "query [%d,%d]: %q was recorded before a reset that returned before the query began", q.start, q.end, text)
					continue
				}
				v.Addf("C13/concurrent/unexplained-error/reported-more-often-than-recorded", "query [%d,%d]: %q reported %d times, at most %d evaluations can explain it", q.start, q.end, text, gc[text], mayC[text])
			}
		}
	}
	v = dedupe(v)
	if len(v) > 0 {
		v[0].Msg += "\nconfiguration: " + string(c.Tree.JSON())
	}
	return v
}

func concShape(c ConcCase) (s shape, hasReset, hasQuery bool, exchanges int) {
	s = shapeOf(c.Tree)
	for _, p := range c.Control {
		hasReset = hasReset || strings.ContainsAny(p, "ZR")
		hasQuery = hasQuery || strings.Contains(p, "V")
	}
	for _, ops := range c.Traffic {
		exchanges += len(ops)
	}
	return
}

var propConcurrent = &kit.Prop[ConcCase]{
	ID: "C13", Name: "concurrent",
	Rule: "one verifier-bearing tree, 4 traffic goroutines (<= 12|25 exchanges each) and 2 control goroutines (programs of <= 10 queries/resets) on the real handlers; in half of the cases the tree (root: a fifo group) is wired directly, without a martianhttp.Modifier around it, and resets also come as direct ResetRequestVerifications/ResetResponseVerifications calls, API exchanges marked as in the histories check (mostly through the real api.Forwarder); ops are stamped with a global sequence number before start and after return; every failure whose exchange returned before a query began, with no reset possibly in between, must be in that query's answer, and nothing may be reported more often than evaluations can explain; run under the race detector in the race shard; non-trivial = the tree holds a verifier, traffic on >= 2 goroutines and at least one concurrent query",
	Run:  runConcurrent,
	NonTrivial: func(c ConcCase) bool {
		s, _, q, _ := concShape(c)
		busy := 0
		for _, ops := range c.Traffic {
			if len(ops) > 0 {
				busy++
			}
		}
		return s.nVerifiers > 0 && busy >= 2 && q
	},
	Classes: func(c ConcCase) []string {
		var cl []string
		s, z, q, _ := concShape(c)
		if z {
			cl = append(cl, "concurrent-reset")
		}
		if q {
			cl = append(cl, "concurrent-query")
		}
		if s.notUnderFifo {
			cl = append(cl, "verifier-not-under-fifo")
		}
		if s.kinds["pingback"] {
			cl = append(cl, "verifier:pingback")
		}
		if s.verifierInElse {
			cl = append(cl, "verifier-in-else")
		}
		if c.Direct {
			cl = append(cl, "direct-wiring")
			if z {
				cl = append(cl, "direct-wiring-with-concurrent-reset")
			}
		}
		for _, ops := range c.Traffic {
			for i := range ops {
				if f := apiForm(&ops[i]); f != "" {
					cl = appendOnce(cl, "api-mark:"+f)
				}
			}
		}
		return cl
	},
	Gates: map[string]float64{"concurrent-query": 0.6, "concurrent-reset": 0.4, "verifier-not-under-fifo": 0.10, "direct-wiring-with-concurrent-reset": 0.3,
		"api-mark:direct": 0.3, "api-mark:url-already-forwarder-target": 0.5, "api-mark:url-virtual-host": 0.5},
	Gen: func(t *rapid.T) ConcCase {
		c := ConcCase{Tree: genTree(t), Yield: uni(t, "yield", 3), Direct: rapid.Bool().Draw(t, "direct")}
		if c.Direct && c.Tree.T != tr.Fifo {
			// Without martianhttp.Modifier it is the enclosing group that keeps a
			// reset apart from evaluations in flight: the statement's "verifiers
			// under FIFO groups"; a root group with everything below it.
			c.Tree = &tr.Node{ID: 700000, T: tr.Fifo, Kids: []*tr.Node{c.Tree}}
		}
		badOK := unparsableQueriesOK(c.Tree)
		for g := 0; g < 4; g++ {
			n := uni(t, "ntraffic", kit.N(12, 25)+1)
			ops := []Op{}
			for i := 0; i < n; i++ {
				ops = append(ops, genExchange(t, badOK))
			}
			c.Traffic = append(c.Traffic, ops)
		}
		for g := 0; g < 2; g++ {
			n := 1 + uni(t, "ncontrol", 10)
			var sb strings.Builder
			for i := 0; i < n; i++ {
				switch k := uni(t, "ctl", 8); {
				case c.Direct && k < 2:
					sb.WriteByte('R')
				case k < 2 || (c.Direct && k < 4):
					sb.WriteByte('Z')
				default:
					sb.WriteByte('V')
				}
			}
			c.Control = append(c.Control, sb.String())
		}
		return c
	},
}

func TestConcurrent(t *testing.T) {
	n := kit.N(500, 4000)
	if kit.Race() {
		n = kit.N(300, 2000)
		waitForE2E()
	}
	propConcurrent.Check(t, n)
}

func TestReplay(t *testing.T) {
	kit.Replay(t, propSequential, propEnum, propShapes, propConcurrent, propWire, propWireEnum, propMobile)
}
