package c13

// End-to-end variant of C13: the verifier tree sits in a real martian.Proxy,
// API traffic (verification queries, resets) is sent THROUGH the proxy to the
// virtual host martian.proxy - routed by a host filter to api.Forwarder and on
// to a local API server - on the same keep-alive client connections that carry
// the ordinary traffic. What the queries answer is compared with the model.

import (
	"encoding/json"
	"fmt"
	"net"
	"net/http"
	"net/url"
	"os"
	"path/filepath"
	"sort"
	"strconv"
	"strings"
	"sync"
	"sync/atomic"
	"testing"
	"time"

	"github.com/google/martian/v3"
	"github.com/google/martian/v3/api"
	"github.com/google/martian/v3/fifo"
	"github.com/google/martian/v3/martianhttp"
	"github.com/google/martian/v3/martianurl"
	"github.com/google/martian/v3/mobile"
	"github.com/google/martian/v3/verify"
	"pgregory.net/rapid"

	"verifharness/internal/kit"
	"verifharness/internal/netkit"
	tr "verifharness/props/treeref"
)

// WireOp is one step of an end-to-end history. K: "X" ordinary exchange,
// "V" verification query through the proxy, "Z" reset through the proxy.
type WireOp struct {
	K    string  `json:"k"`
	Conn int     `json:"conn"` // which client connection carries it
	Req  *tr.Req `json:"req,omitempty"`
	Res  *tr.Res `json:"res,omitempty"`
}

// WireCase is a tree and a history over Conns keep-alive client connections.
type WireCase struct {
	Tree  *tr.Node `json:"tree"`
	Conns int      `json:"conns"`
	// CloneRT: the proxy's RoundTripper (SetRoundTripper) forwards a copy of
	// the request, as instrumenting transports do; the response it returns
	// then points at the copy.
	CloneRT bool `json:"clone_rt,omitempty"`
	// Mobile: proxy, API server and the order of the top-level modifiers are
	// the shipped ones of package mobile (mobile.NewProxy().Start()), not the
	// harness's own assembly.
	Mobile bool     `json:"mobile,omitempty"`
	Ops    []WireOp `json:"ops"`
}

type cloningRT struct{ next http.RoundTripper }

func (c cloningRT) RoundTrip(req *http.Request) (*http.Response, error) {
	return c.next.RoundTrip(req.Clone(req.Context()))
}

type wireEnv struct {
	origin    *netkit.Origin
	apiL      net.Listener
	apiSrv    *http.Server
	apiPort   int
	mobile    *mobile.Martian
	proxyAddr string
	apiAddr   string
	proxy     *netkit.Proxy
	m         *martianhttp.Modifier
	clients   []*netkit.Client

	mu      sync.Mutex
	scripts map[string]*tr.Res // X-Verif-Op value -> response the origin gives
}

func (e *wireEnv) close() {
	for _, c := range e.clients {
		if c != nil {
			c.Close()
		}
	}
	if e.mobile != nil {
		e.mobile.Shutdown()
	} else {
		e.proxy.Stop(kit.T())
		e.apiSrv.Close()
	}
	e.origin.Close()
}

// freePort asks the kernel for a free TCP port; package mobile takes port
// numbers, not listeners.
func freePort() int {
	// Probed on the wildcard address, as mobile.Start binds it: a port some
	// other process holds on one loopback address only (the harness listens on
	// 127.x.y.z) would make Start fail, and Start answers that with log.Fatal.
	// (BindLocalhost is no way out here: localhost resolves to 127.0.0.1 only,
	// so the forwarder could not reach an API server bound to [::1].)
	l, err := net.Listen("tcp", ":0")
	if err != nil {
		panic(err)
	}
	defer l.Close()
	return l.Addr().(*net.TCPAddr).Port
}

func newWireEnv(c WireCase) (*wireEnv, kit.Verdict) {
	e := &wireEnv{scripts: map[string]*tr.Res{}}
	e.origin = netkit.NewOrigin(func(r *netkit.ReqLog) netkit.Script {
		e.mu.Lock()
		rs := e.scripts[r.Header.Get("X-Verif-Op")]
		e.mu.Unlock()
		if rs == nil {
			rs = &tr.Res{Status: 599}
		}
		var sb strings.Builder
		fmt.Fprintf(&sb, "HTTP/1.1 %d Scripted\r\nContent-Length: 0\r\n", rs.Status)
		var names []string
		for k := range rs.Header {
			names = append(names, k)
		}
		sort.Strings(names)
		for _, k := range names {
			for _, v := range rs.Header[k] {
				fmt.Fprintf(&sb, "%s: %s\r\n", k, v)
			}
		}
		sb.WriteString("\r\n")
		return netkit.Script{Raw: []byte(sb.String()), CutAt: -1}
	})

	if c.Mobile {
		m := mobile.NewProxy()
		m.TrafficPort, m.APIPort = freePort(), freePort()
		m.Start() // its own listeners on both ports, API handlers, spec stack, forwarder
		e.mobile, e.apiPort = m, m.APIPort
		e.proxyAddr = fmt.Sprintf("127.0.0.1:%d", m.TrafficPort)
		e.apiAddr = fmt.Sprintf("127.0.0.1:%d", m.APIPort)
		return e.connect(c)
	}
	// the modifier holding the tree, configured through its endpoint
	e.m = martianhttp.NewModifier()
	vh, rh := verify.NewHandler(), verify.NewResetHandler()
	vh.SetRequestVerifier(e.m)
	vh.SetResponseVerifier(e.m)
	rh.SetRequestVerifier(e.m)
	rh.SetResponseVerifier(e.m)
	mux := http.NewServeMux()
	mux.Handle("/configure", e.m)
	mux.Handle("/verify", vh)
	mux.Handle("/verify/reset", rh)
	l, err := netkit.Listen()
	if err != nil {
		panic(err)
	}
	e.apiL = l
	_, port, _ := net.SplitHostPort(l.Addr().String())
	e.apiPort, _ = strconv.Atoi(port)
	e.apiSrv = &http.Server{Handler: mux}
	go e.apiSrv.Serve(l)

	apiName := fmt.Sprintf("localhost:%d", e.apiPort)
	dialer := &netkit.Dialer{Route: func(addr string) string {
		if addr == apiName {
			return l.Addr().String()
		}
		return e.origin.Addr
	}}
	p := martian.NewProxy()
	p.SetTimeout(60 * time.Second)
	p.SetDial(dialer.Dial)
	if c.CloneRT {
		p.SetRoundTripper(cloningRT{&http.Transport{Dial: dialer.Dial, DisableCompression: true}})
	}
	// what cmd/proxy builds: API traffic is recognised by its host and routed
	// through the forwarder, ahead of the user's modifiers
	apif := martianurl.NewFilter(&url.URL{Host: "martian.proxy"})
	apif.SetRequestModifier(api.NewForwarder("", e.apiPort))
	top := fifo.NewGroup()
	top.AddRequestModifier(apif)
	top.AddRequestModifier(e.m)
	top.AddResponseModifier(e.m)
	p.SetRequestModifier(top)
	p.SetResponseModifier(top)
	e.proxy = netkit.Start(p, nil)
	e.proxyAddr, e.apiAddr = e.proxy.Addr, e.apiL.Addr().String()
	return e.connect(c)
}

// connect opens the client connections and sends the configuration through the proxy.
func (e *wireEnv) connect(c WireCase) (*wireEnv, kit.Verdict) {
	e.clients = make([]*netkit.Client, c.Conns)
	for i := range e.clients {
		cl, err := netkit.Dial(e.proxyAddr)
		if err != nil {
			e.close()
			return nil, kit.Failf("C13/e2e/setup/cannot-connect", "dial proxy: %v", err)
		}
		e.clients[i] = cl
	}
	// the configuration itself goes through the proxy as API traffic on connection 0
	body := string(c.Tree.JSON())
	resp, err := e.roundTrip(0, "POST", "http://martian.proxy/configure", nil, body, kit.T())
	if err != nil || resp.Status != 200 {
		e.close()
		st := 0
		if resp != nil {
			st = resp.Status
		}
		return nil, kit.Failf("C13/e2e/setup/configure-through-proxy", "POST http://martian.proxy/configure through the proxy: status %d, %v", st, err)
	}
	return e, nil
}

func (e *wireEnv) roundTrip(conn int, method, target string, hdr map[string][]string, body string, bound time.Duration) (*netkit.Resp, error) {
	u, err := url.Parse(target)
	if err != nil {
		panic(err)
	}
	var sb strings.Builder
	fmt.Fprintf(&sb, "%s %s HTTP/1.1\r\nHost: %s\r\n", method, target, u.Host)
	var names []string
	for k := range hdr {
		names = append(names, k)
	}
	sort.Strings(names)
	for _, k := range names {
		for _, v := range hdr[k] {
			fmt.Fprintf(&sb, "%s: %s\r\n", k, v)
		}
	}
	if body != "" || method == "POST" {
		fmt.Fprintf(&sb, "Content-Length: %d\r\n", len(body))
	}
	sb.WriteString("\r\n")
	sb.WriteString(body)
	cl := e.clients[conn]
	if err := cl.Write([]byte(sb.String())); err != nil {
		return nil, err
	}
	resp, _, err := cl.ReadResponse(method, bound)
	return resp, err
}

// asSeen is the request as the proxy hands it to the modifiers.
// asSeenAt: originHost, when set, replaces the host of an ordinary exchange -
// the shipped proxy dials what the URL says.
func asSeenAt(op *WireOp, idx int, originHost string) *tr.Req {
	rq := asSeen(op, idx)
	if originHost != "" {
		rq.Host, rq.HostH = originHost, originHost
	}
	return rq
}

func asSeen(op *WireOp, idx int) *tr.Req {
	rq := op.Req.Clone()
	rq.Scheme = "http"
	rq.HostH = rq.Host
	rq.CL = 0
	rq.Header["X-Verif-Op"] = []string{strconv.Itoa(idx)}
	return rq
}

func runWire(c WireCase) kit.Verdict {
	v := runWireBound(c, kit.T())
	for _, f := range v {
		if strings.HasSuffix(f.Sig, "/no-answer-within-bound") {
			v2 := runWireBound(c, 3*kit.T())
			still := false
			for _, g := range v2 {
				still = still || strings.HasSuffix(g.Sig, "/no-answer-within-bound")
			}
			if !still {
				kit.Inconclusive("e2e")
			}
			return v2
		}
	}
	return v
}

func runWireBound(c WireCase, bound time.Duration) kit.Verdict {
	e, v := newWireEnv(c)
	if v != nil {
		return v
	}
	defer e.close()
	m := newModel(c.Tree)
	apiSeen := make([]bool, c.Conns) // an API request already travelled on this connection
	apiSeen[0] = true                // the configuration POST
	apiHost := fmt.Sprintf("localhost:%d", e.apiPort)
	originHost := ""
	if c.Mobile {
		originHost = e.origin.Addr
	}
	fail := func(sig, format string, args ...interface{}) {
		v.Addf(sig, format, args...)
	}
	// an API call as the tree sees it (only used to name an extra error)
	noteAPI := func(method, path string, status int) {
		op := &Op{K: "X", API: true, Req: &tr.Req{Method: method, Scheme: "http", Host: apiHost, Path: path, HostH: "martian.proxy", Header: map[string][]string{}},
			Res: &tr.Res{Status: status, Header: map[string][]string{}}}
		unmet, _, _ := predict(c.Tree, op)
		m.applyExchange(unmet, nil, true)
		// ... and as it is before the forwarder re-addresses it (an assembly
		// that runs the tree first shows the tree this form)
		early := *op
		rq := *op.Req.Clone()
		rq.Host = "martian.proxy"
		early.Req = &rq
		unmet, _, _ = predict(c.Tree, &early)
		m.applyExchange(unmet, nil, true)
	}
	noteAPI("POST", "/configure", 200)
	afterAPI := false // some ordinary exchange followed an API request on its connection
	compare := func(step int, what string, got []string) {
		for _, f := range m.compare(step, what, got) {
			sig := strings.Replace(f.Sig, "C13/", "C13/e2e/", 1)
			if f.Sig == "C13/query/unmet-expectation/lost" && afterAPI {
				sig = "C13/e2e/ordinary-exchange-after-api-request-on-its-connection/unmet-expectation-lost"
			}
			fail(sig, "%s", f.Msg)
		}
	}
	for i := range c.Ops {
		op := &c.Ops[i]
		switch op.K {
		case "X":
			rq := asSeenAt(op, i, originHost)
			seqOp := &Op{K: "X", Req: rq, Res: op.Res}
			unmet, pinged, lv := predict(c.Tree, seqOp)
			v = append(v, lv...)
			e.mu.Lock()
			e.scripts[strconv.Itoa(i)] = op.Res
			e.mu.Unlock()
			hdr := map[string][]string{}
			for k, vs := range op.Req.Header {
				hdr[k] = vs
			}
			hdr["X-Verif-Op"] = []string{strconv.Itoa(i)}
			resp, err := e.roundTrip(op.Conn, op.Req.Method, rq.URLString(), hdr, "", bound)
			if err != nil {
				sig := "C13/e2e/ordinary-exchange/failed"
				if netkit.IsTimeout(err) {
					sig = "C13/e2e/ordinary-exchange/no-answer-within-bound"
				}
				fail(sig, "step %d: %s %s on connection %d: %v", i, op.Req.Method, rq.URLString(), op.Conn, err)
				return dedupe(v)
			}
			if resp.Status != op.Res.Status {
				fail("C13/e2e/ordinary-exchange/wrong-response", "step %d: client got status %d, the origin was scripted to answer %d", i, resp.Status, op.Res.Status)
				return dedupe(v)
			}
			m.applyExchange(unmet, pinged, false)
			if apiSeen[op.Conn] {
				afterAPI = true
			}
		case "V":
			resp, err := e.roundTrip(op.Conn, "GET", "http://martian.proxy/verify", nil, "", bound)
			apiSeen[op.Conn] = true
			if err != nil || resp.Status != 200 {
				sig := "C13/e2e/query-through-proxy/failed"
				if err != nil && netkit.IsTimeout(err) {
					sig = "C13/e2e/query-through-proxy/no-answer-within-bound"
				}
				fail(sig, "step %d: GET http://martian.proxy/verify on connection %d: %v (response %+v)", i, op.Conn, err, resp)
				return dedupe(v)
			}
			var doc struct {
				Errors []struct {
					Message string `json:"message"`
				} `json:"errors"`
			}
			if err := json.Unmarshal(resp.Body, &doc); err != nil {
				fail("C13/e2e/query-through-proxy/bad-answer", "step %d: body %q: %v", i, resp.Body, err)
				return dedupe(v)
			}
			got := []string{}
			for _, x := range doc.Errors {
				got = append(got, x.Message)
			}
			// the query's own request passed the tree before the handler answered
			noteAPI("GET", "/verify", 200)
			compare(i, "query through the proxy", got)
		case "Z":
			resp, err := e.roundTrip(op.Conn, "POST", "http://martian.proxy/verify/reset", nil, "", bound)
			apiSeen[op.Conn] = true
			if err != nil || resp.Status != 204 {
				sig := "C13/e2e/reset-through-proxy/failed"
				if err != nil && netkit.IsTimeout(err) {
					sig = "C13/e2e/reset-through-proxy/no-answer-within-bound"
				}
				fail(sig, "step %d: POST http://martian.proxy/verify/reset on connection %d: %v (response %+v)", i, op.Conn, err, resp)
				return dedupe(v)
			}
			m.applyReset()
			// the reset's own 204 response passes the tree after the reset ran
			noteAPI("POST", "/verify/reset", 204)
		}
	}
	// final observation straight at the API server (not through the proxy)
	hres, err := (&http.Client{Timeout: bound}).Get("http://" + e.apiAddr + "/verify")
	if err != nil {
		fail("C13/e2e/final-query/failed", "direct query: %v", err)
		return dedupe(v)
	}
	defer hres.Body.Close()
	var doc struct {
		Errors []struct {
			Message string `json:"message"`
		} `json:"errors"`
	}
	if err := json.NewDecoder(hres.Body).Decode(&doc); err != nil {
		fail("C13/e2e/final-query/bad-answer", "direct query: %v", err)
		return dedupe(v)
	}
	got := []string{}
	for _, x := range doc.Errors {
		got = append(got, x.Message)
	}
	compare(len(c.Ops), "final query at the API server", got)
	v = dedupe(v)
	if len(v) > 0 {
		v[0].Msg += "\nconfiguration: " + string(c.Tree.JSON())
	}
	return v
}

// wireStats: does an ordinary exchange with an unmet expectation follow an API
// request on its own connection, and is it observed by a later query?
func wireStats(c WireCase) (unmetAfterAPI, observed bool) {
	apiSeen := make([]bool, c.Conns)
	apiSeen[0] = true
	pending := false
	for i := range c.Ops {
		op := &c.Ops[i]
		switch op.K {
		case "X":
			hit := false
			in := &tr.Interp{OnVerifier: func(leaf *tr.Node, side tr.Side, rq *tr.Req, rs *tr.Res) {
				if leaf.T != tr.PingbackVerifier && tr.VerifierUnmet(leaf, side, rq, rs) {
					hit = true
				}
			}}
			rq := asSeen(op, i)
			in.Request(c.Tree, rq)
			rs := op.Res.Clone()
			rs.Req = rq
			in.Response(c.Tree, rs)
			if hit && apiSeen[op.Conn] {
				unmetAfterAPI, pending = true, true
			}
		case "V":
			apiSeen[op.Conn] = true
		case "Z":
			apiSeen[op.Conn] = true
			pending = false
		}
	}
	return unmetAfterAPI, pending || unmetAfterAPI
}

var propWire = &kit.Prop[WireCase]{
	ID: "C13", Name: "e2e", Journal: true,
	Rule: "a real martian.Proxy whose request modifier is a fifo group [url filter host martian.proxy -> api.Forwarder, martianhttp.Modifier holding a generated verifier tree] in front of a scripted origin and a local API server (configure / verify / reset handlers); 1..2 keep-alive client connections; the configuration, every verification query and every reset travel THROUGH the proxy to http://martian.proxy/... on those same connections, interleaved with <= 16|30 ordinary exchanges; each query's answer and a final direct query are compared as multisets with the model; non-trivial = an ordinary exchange with an unmet expectation follows an API request on its own connection",
	Gen: func(t *rapid.T) WireCase {
		c := WireCase{Tree: genTreeOpt(t, true), Conns: 1 + uni(t, "conns", 2), CloneRT: rapid.Bool().Draw(t, "clonert")}
		n := 3 + uni(t, "nops", kit.N(14, 28))
		for i := 0; i < n; i++ {
			op := WireOp{Conn: uni(t, "conn", c.Conns)}
			switch k := uni(t, "op", 10); {
			case k < 6:
				rq, rs := tr.GenPairOpt(t, false)
				op.K, op.Req, op.Res = "X", &rq, &rs
				delete(rs.Header, "Set-Cookie") // keep the scripted origin trivial: cookie attributes add nothing here
				rq.CL, rs.CL = 0, 0             // bodiless messages on the wire
				if uni(t, "odd", 3) == 0 {
					// on the wire: percent-escaped query values of every kind, header values without control bytes
					oddContent(t, &rq, &rs, tr.WireSafeOddHeaderValues)
				}
				if uni(t, "portedhost", 5) == 0 {
					rq.Host = pick(t, "phost", tr.PortedHosts)
				}
			case k < 9:
				op.K = "V"
			default:
				op.K = "Z"
			}
			c.Ops = append(c.Ops, op)
		}
		return c
	},
	Run: runWire,
	NonTrivial: func(c WireCase) bool {
		a, _ := wireStats(c)
		return a
	},
	Classes: func(c WireCase) []string {
		var cl []string
		a, _ := wireStats(c)
		if a {
			cl = append(cl, "unmet-after-api-request-on-connection")
		}
		if c.Conns > 1 {
			cl = append(cl, "two-connections")
		}
		if c.CloneRT {
			cl = append(cl, "cloning-roundtripper")
			if len(tr.Verifiers(c.Tree, tr.Response)) > 0 {
				cl = append(cl, "cloning-roundtripper-with-response-verifier")
			}
		}
		for _, op := range c.Ops {
			if op.K == "Z" {
				cl = appendOnce(cl, "reset-through-proxy")
			}
		}
		return cl
	},
	Gates: map[string]float64{"unmet-after-api-request-on-connection": 0.5, "cloning-roundtripper-with-response-verifier": 0.15},
}

// e2eDoneMarker: see TestEndToEnd.
func e2eDoneMarker() string { return filepath.Join(kit.OutDir(), "c13-e2e-done") }

// TestEndToEnd lives in the file that sorts first so that it runs before the
// other tests of the package. The race process and non-race shard 0 share one
// journal file name (kit: current-<shard>.json in the run's directory); every
// journaled e2e case removes that file when it ends, which would also remove
// the journal a halted race process left behind - and with it the replayable
// case of a detected race. Shard 0 therefore runs its journaled cases first
// (TestEndToEnd, then TestEndToEndMobile, which leaves a marker); the race
// process starts its cases once it is there.
func TestEndToEnd(t *testing.T) {
	if kit.Race() {
		t.Skip("the race shard is spent on the in-process concurrent variant")
	}
	propWire.Check(t, kit.N(40, 150))
}

// propWireEnum: the fixed part of the end-to-end variant - combinations that
// must be present at every seed, not just likely.
var propWireEnum = &kit.Prop[WireCase]{
	ID: "C13", Name: "e2e-enum", Journal: true,
	Rule: "ALL of: {cloning, plain} round tripper x response-side verifier {header.Verifier scope response, header.Verifier both sides, status.Verifier} x verification query through the proxy {before, between, after} two ordinary exchanges with unmet expectations, closed by a second query; one keep-alive connection; non-trivial = all",
	Run:  runWire,
}

func TestEndToEndEnum(t *testing.T) {
	if kit.Race() {
		t.Skip("the race shard is spent on the in-process concurrent variant")
	}
	x := func(path string) WireOp {
		return WireOp{K: "X",
			Req: &tr.Req{Method: "GET", Scheme: "http", Host: "example.com", Path: path, HostH: "example.com", Header: map[string][]string{}},
			Res: &tr.Res{Status: 500, Header: map[string][]string{"X-B": {"1"}}}}
	}
	v := WireOp{K: "V"}
	propWireEnum.Enumerate(t, func(yield func(WireCase) bool) {
		for _, clone := range []bool{true, false} {
			for _, leaf := range []*tr.Node{
				{ID: 2, T: tr.HeaderVerifier, P: map[string]string{"name": "X-A"}, HasScope: true, Scope: []string{"response"}},
				{ID: 2, T: tr.HeaderVerifier, P: map[string]string{"name": "X-A"}},
				{ID: 2, T: tr.StatusVerifier, N: 200},
			} {
				for _, ops := range [][]WireOp{
					{v, x("/x"), x("/y"), v},
					{x("/x"), v, x("/y"), v},
					{x("/x"), x("/y"), v, v},
				} {
					l := *leaf
					tree := &tr.Node{ID: 1, T: tr.Fifo, Kids: []*tr.Node{&l}}
					if !yield(WireCase{Tree: tree, Conns: 1, CloneRT: clone, Ops: append([]WireOp{}, ops...)}) {
						return
					}
				}
			}
		}
	})
}

// propMobile: the same end-to-end history against the shipped assembly of
// package mobile. "Requests addressed to the proxy's own API are never
// counted" is a promise about the product, and where the API mark is set
// relative to the configured tree is decided by that assembly (mobile.Start,
// cmd/proxy), not by the verifier packages.
var propMobile = &kit.Prop[WireCase]{
	ID: "C13", Name: "e2e-mobile", Journal: true,
	Rule: "mobile.NewProxy().Start() on two free ports (its own listeners, API server, spec stack, mux filter + api.Forwarder in the order the package ships); the verifier tree is configured through the proxy (POST http://martian.proxy/configure), ordinary exchanges go to a scripted origin by its real address, queries and resets go through the proxy on the same keep-alive connection; each answer and a final direct query are compared with the model; non-trivial = the tree holds a request-side verifier and the history a query through the proxy",
	Gen: func(t *rapid.T) WireCase {
		c := WireCase{Tree: genTreeOpt(t, true), Conns: 1, Mobile: true}
		n := 3 + uni(t, "nops", 8)
		for i := 0; i < n; i++ {
			op := WireOp{}
			switch k := uni(t, "op", 10); {
			case k < 5:
				rq, rs := tr.GenPairOpt(t, false)
				op.K, op.Req, op.Res = "X", &rq, &rs
				delete(rs.Header, "Set-Cookie")
				rq.CL, rs.CL = 0, 0
			case k < 9:
				op.K = "V"
			default:
				op.K = "Z"
			}
			c.Ops = append(c.Ops, op)
		}
		return c
	},
	// mobile.Start binds two port numbers on the wildcard address and answers a
	// failed bind with log.Fatal; the ports are probed just before (freePort)
	// and on this busy machine every further start is a further chance to lose
	// that race. The first failing case is therefore kept as it is (the
	// histories are short) instead of being shrunk through hundreds of starts.
	Run: func(c WireCase) kit.Verdict {
		if mobileFailed.Load() {
			return nil
		}
		v := runWire(c)
		if len(v) > 0 {
			mobileFailed.Store(true)
		}
		return v
	},
	NonTrivial: func(c WireCase) bool {
		q := false
		for _, op := range c.Ops {
			q = q || op.K == "V"
		}
		return q && len(tr.Verifiers(c.Tree, tr.Request)) > 0
	},
}

var mobileFailed atomic.Bool

func TestEndToEndMobile(t *testing.T) {
	if kit.Race() || kit.Shard() != 0 {
		t.Skip("one process is enough: package mobile binds fixed port numbers on all interfaces")
	}
	// the last journaled test of shard 0: see TestEndToEnd
	defer os.WriteFile(e2eDoneMarker(), []byte("done\n"), 0o644)
	propMobile.Check(t, kit.N(12, 40))
}

// waitForE2E is called by the race process before its first case (bounded;
// pure orchestration, nothing is asserted on it).
func waitForE2E() {
	if os.Getenv("VERIF_OUT") == "" {
		return // not under the driver: nobody shares the directory
	}
	deadline := time.Now().Add(90 * time.Second)
	for time.Now().Before(deadline) {
		if _, err := os.Stat(e2eDoneMarker()); err == nil {
			return
		}
		time.Sleep(20 * time.Millisecond)
	}
}
