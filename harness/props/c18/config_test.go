// Package c18 decides property C18: traffic shaping delays or cuts a response
// but never alters its bytes.
package c18

import (
	"encoding/json"
	"fmt"
	"regexp"
	"sort"
	"strconv"
	"strings"
)

// ---------------------------------------------------------------- configuration (plain data)

// Throttle is one throttle entry; Bytes is kept as the raw string so that
// malformed forms can be expressed.
type Throttle struct {
	Bytes string `json:"b"`
	BW    int64  `json:"bw"`
}

// Halt sleeps Dur ms when the body offset reaches At, N times (-1 unlimited).
type Halt struct {
	At  int64 `json:"at"`
	Dur int64 `json:"ms"`
	N   int64 `json:"n"`
}

// CloseAct closes the connection when the body offset reaches At.
type CloseAct struct {
	At int64 `json:"at"`
	N  int64 `json:"n"`
}

// Shape is the shaping of one URL pattern. Pat selects the pattern (URLs are
// built to match exactly one), Var its spelling; Regex overrides both.
type Shape struct {
	Pat       int        `json:"pat"`
	Var       int        `json:"var,omitempty"`
	Regex     *string    `json:"regex,omitempty"`
	MaxBW     int64      `json:"maxbw,omitempty"`
	Throttles []Throttle `json:"thr,omitempty"`
	Halts     []Halt     `json:"halts,omitempty"`
	Closes    []CloseAct `json:"closes,omitempty"`
}

// Config is one POST to the shaping endpoint.
type Config struct {
	Up      int64   `json:"up,omitempty"`
	Down    int64   `json:"down,omitempty"`
	Latency int64   `json:"lat,omitempty"`
	Shapes  []Shape `json:"shapes"`
	// Mangle damages the JSON document itself: bad-json, no-trafficshape,
	// null-shape, null-throttle, null-halt, null-close, string-for-number.
	Mangle string `json:"mangle,omitempty"`
}

const host = "c18.example"

func (s Shape) regex() string {
	if s.Regex != nil {
		return *s.Regex
	}
	switch s.Var % 3 {
	case 1:
		return fmt.Sprintf("/p%d/.*", s.Pat)
	case 2:
		return fmt.Sprintf("^http://[a-z0-9.]+/p%d/", s.Pat)
	}
	return fmt.Sprintf("http://%s/p%d/", host, s.Pat)
}

// urlFor builds the request URL of a response; pat < 0 matches no pattern.
func urlFor(pat int, seq int) string {
	if pat < 0 {
		return fmt.Sprintf("http://%s/q%d/r%d", host, -pat, seq)
	}
	return fmt.Sprintf("http://%s/p%d/r%d", host, pat, seq)
}

// JSON renders the configuration as the document the handler expects.
func (c Config) JSON() []byte {
	var shapes []interface{}
	for i, s := range c.Shapes {
		m := map[string]interface{}{"url_regex": s.regex()}
		if s.MaxBW != 0 {
			m["max_global_bandwidth"] = s.MaxBW
		}
		var thr, halts, closes []interface{}
		for _, t := range s.Throttles {
			thr = append(thr, map[string]interface{}{"bytes": t.Bytes, "bandwidth": t.BW})
		}
		for _, h := range s.Halts {
			halts = append(halts, map[string]interface{}{"byte": h.At, "duration": h.Dur, "count": h.N})
		}
		for _, cl := range s.Closes {
			closes = append(closes, map[string]interface{}{"byte": cl.At, "count": cl.N})
		}
		if i == len(c.Shapes)-1 {
			switch c.Mangle {
			case "null-throttle":
				thr = append(thr, nil)
			case "null-halt":
				halts = append(halts, nil)
			case "null-close":
				closes = append(closes, nil)
			case "string-for-number":
				halts = append(halts, map[string]interface{}{"byte": "12", "duration": 1, "count": 1})
			}
		}
		if thr != nil {
			m["throttles"] = thr
		}
		if halts != nil {
			m["halts"] = halts
		}
		if closes != nil {
			m["close_connections"] = closes
		}
		shapes = append(shapes, m)
	}
	if c.Mangle == "null-shape" {
		shapes = append(shapes, nil)
	}
	ts := map[string]interface{}{
		"default": map[string]interface{}{"bandwidth": map[string]interface{}{"up": c.Up, "down": c.Down}, "latency": c.Latency},
		"shapes":  shapes,
	}
	doc := map[string]interface{}{"trafficshape": ts}
	if c.Mangle == "no-trafficshape" {
		doc = ts
	}
	b, err := json.Marshal(doc)
	if err != nil {
		panic(err)
	}
	if c.Mangle == "bad-json" {
		b = b[:len(b)-1]
	}
	switch c.Mangle {
	case "null-document":
		b = []byte("null")
	case "null-trafficshape":
		b = []byte(`{"trafficshape":null}`)
	case "array-document":
		b = []byte("[]")
	case "empty-body":
		b = nil
	}
	return b
}

// parseThrottle is the reference reading of a throttle's byte interval
// (DESIGN A.6): "a-b", "a-" (to the end), "-b" (from 0); end -1 = open.
func parseThrottle(s string) (a, b int64, ok bool) {
	parts := strings.Split(s, "-")
	if len(parts) != 2 {
		return 0, 0, false
	}
	var err error
	if parts[0] != "" {
		if a, err = strconv.ParseInt(parts[0], 10, 64); err != nil {
			return 0, 0, false
		}
	}
	b = -1
	if parts[1] != "" {
		if b, err = strconv.ParseInt(parts[1], 10, 64); err != nil {
			return 0, 0, false
		}
		if b < a {
			return 0, 0, false
		}
	}
	if a == b {
		return 0, 0, false
	}
	return a, b, true
}

// Valid is the reference validity decision (DESIGN A.6), written from the
// statement: negative values, zero counts, empty or invalid patterns,
// malformed, empty, reversed or overlapping throttles, non-positive throttle
// bandwidths and damaged documents are rejected.
func (c Config) Valid() bool { return c.Why() == "" }

// Why names the first reason a document is invalid ("" for a valid one).
func (c Config) Why() string {
	if c.Mangle != "" {
		return "damaged-document"
	}
	if c.Up < 0 || c.Down < 0 || c.Latency < 0 {
		return "negative-default"
	}
	for _, s := range c.Shapes {
		re := s.regex()
		if re == "" {
			return "bad-pattern"
		}
		if _, err := regexp.Compile(re); err != nil {
			return "bad-pattern"
		}
		if s.MaxBW < 0 {
			return "negative-bandwidth"
		}
		type iv struct{ a, b int64 }
		var ivs []iv
		for _, t := range s.Throttles {
			if t.BW <= 0 {
				return "throttle-bandwidth"
			}
			a, b, ok := parseThrottle(t.Bytes)
			if !ok {
				return "throttle-bytes"
			}
			ivs = append(ivs, iv{a, b})
		}
		sort.SliceStable(ivs, func(i, j int) bool { return ivs[i].a < ivs[j].a })
		for i := 0; i+1 < len(ivs); i++ {
			if ivs[i].b == -1 || ivs[i].b > ivs[i+1].a {
				return "throttle-overlap"
			}
		}
		for _, h := range s.Halts {
			if h.Dur < 0 || h.At < 0 {
				return "negative-halt"
			}
			if h.N == 0 {
				return "zero-count"
			}
		}
		for _, cl := range s.Closes {
			if cl.At < 0 {
				return "negative-close"
			}
			if cl.N == 0 {
				return "zero-count"
			}
		}
		// -1 is the documented "every time"; any other negative count is a
		// negative value without a meaning ("negative values ... are rejected")
		for _, h := range s.Halts {
			if h.N < -1 {
				return "negative-count"
			}
		}
		for _, cl := range s.Closes {
			if cl.N < -1 {
				return "negative-count"
			}
		}
	}
	return ""
}

// bucketsBeforeRejection is the number of shapes of an invalid document whose
// validation could have started (used only to describe a leak, never to
// decide one).
func (c Config) shapesNamed() int { return len(c.Shapes) }

// ---------------------------------------------------------------- reference model of an accepted configuration

const inf = int64(1) << 60

// act is a halt or close action with the interval of counts it may still
// have (a point unless something ambiguous happened).
type act struct {
	kind   byte // 'h' or 'c'
	at     int64
	dur    int64
	lo, hi int64
}

func (a *act) String() string {
	n := func(x int64) string {
		if x >= inf {
			return "unlimited"
		}
		return strconv.FormatInt(x, 10)
	}
	k := "halt"
	if a.kind == 'c' {
		k = "close"
	}
	return fmt.Sprintf("%s@%d(count %s..%s)", k, a.at, n(a.lo), n(a.hi))
}

func sub(x, d int64) int64 {
	if x >= inf {
		return inf
	}
	if x-d < 0 {
		return 0
	}
	return x - d
}

type thr struct{ a, b, bw int64 } // b == inf: open ended

type shapeM struct {
	pat   int
	regex string
	maxbw int64
	acts  []*act // sorted by offset; at equal offsets halts before closes, in document order
	thrs  []thr
}

type cfgM struct {
	shapes  []*shapeM
	epoch   int
	latency int64 // ms, of connections accepted under this configuration
}

func (m *cfgM) byPat(pat int) *shapeM {
	if m == nil {
		return nil
	}
	for _, s := range m.shapes {
		if s.pat == pat {
			return s
		}
	}
	return nil
}

func count(n int64) int64 {
	if n < 0 {
		return inf
	}
	return n
}

func buildModel(c Config, epoch int) *cfgM {
	m := &cfgM{epoch: epoch, latency: c.Latency}
	for _, s := range c.Shapes {
		sm := &shapeM{pat: s.Pat, regex: s.regex(), maxbw: s.MaxBW}
		for _, h := range s.Halts {
			sm.acts = append(sm.acts, &act{kind: 'h', at: h.At, dur: h.Dur, lo: count(h.N), hi: count(h.N)})
		}
		for _, cl := range s.Closes {
			sm.acts = append(sm.acts, &act{kind: 'c', at: cl.At, lo: count(cl.N), hi: count(cl.N)})
		}
		sort.SliceStable(sm.acts, func(i, j int) bool { return sm.acts[i].at < sm.acts[j].at })
		for _, t := range s.Throttles {
			a, b, _ := parseThrottle(t.Bytes)
			if b == -1 {
				b = inf
			}
			sm.thrs = append(sm.thrs, thr{a, b, t.BW})
		}
		m.shapes = append(m.shapes, sm)
	}
	return m
}

// throttleSeconds is the lower bound on the time a throttled body range
// [from, to) needs: per throttle interval, ceil(n/B)-2 seconds (the drain
// ticker may fire right after the first chunk and the first chunk is free).
func (s *shapeM) throttleSeconds(from, to int64) float64 {
	total := 0.0
	for _, t := range s.thrs {
		a, b := t.a, t.b
		if a < from {
			a = from
		}
		if b > to {
			b = to
		}
		if b <= a {
			continue
		}
		n := b - a
		chunks := (n + t.bw - 1) / t.bw
		if chunks > 2 {
			total += float64(chunks - 2)
		}
	}
	return total
}

// throttleAt is the throttle a body offset lies in, if any.
func (s *shapeM) throttleAt(off int64) (bw int64, ok bool) {
	for _, t := range s.thrs {
		if off >= t.a && off < t.b {
			return t.bw, true
		}
	}
	return 0, false
}
