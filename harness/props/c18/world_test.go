package c18

import (
	"bufio"
	"bytes"
	"crypto/tls"
	"crypto/x509"
	"errors"
	"fmt"
	"io"
	"net"
	"net/http"
	"net/http/httptest"
	"os"
	"regexp"
	"runtime"
	"strconv"
	"strings"
	"sync"
	"sync/atomic"
	"time"

	"github.com/google/martian/v3"
	"github.com/google/martian/v3/trafficshape"

	"verifharness/internal/kit"
	"verifharness/internal/netkit"
)

// ---------------------------------------------------------------- cases

// Resp is one response on a shaped connection.
type Resp struct {
	Pat    int    `json:"pat"`             // pattern the URL matches; < 0: none
	Start  int64  `json:"start,omitempty"` // range start; -1: no usable range start
	Body   int    `json:"body"`
	Head   int    `json:"head,omitempty"`   // conn level: length of the head
	Splits []int  `json:"splits,omitempty"` // conn level: write sizes over head+body, cyclic
	Seed   uint64 `json:"seed,omitempty"`
	// end-to-end only
	Chunked bool `json:"chunked,omitempty"`
	Star    bool `json:"star,omitempty"`   // Content-Range total given as '*'
	P206    bool `json:"p206,omitempty"`   // answer 206 even for start 0
	Chunk   int  `json:"chunk,omitempty"`  // origin chunk size
	// ReqClose: the client asks for "Connection: close" (the origin's answer
	// does not carry it): the proxy itself adds the line to the head it writes
	// and closes the connection after the response.
	ReqClose bool `json:"req_close,omitempty"`
	// CR: the origin answers 206 with this odd Content-Range value ("<missing>":
	// no such header, "<empty>": empty value).
	CR string `json:"cr,omitempty"`
	// Status: the origin answers with this status instead of 200/206 (a 416 with
	// "Content-Range: bytes */N", a 200 that carries a Content-Range, ...); CR is then
	// sent verbatim. Only a 206 has a range start: such a response starts at 0.
	Status int `json:"status,omitempty"`
	// OClose: the origin's answer carries "Connection: close" itself.
	OClose bool `json:"oclose,omitempty"`
	// LClose: Listener.Close is called (as Proxy.Serve does at shutdown) while
	// this response still has writes ahead; it must be delivered all the same.
	LClose bool `json:"lclose,omitempty"`
}

// Lane is the responses one connection writes inside a parallel group.
type Lane struct {
	Conn int    `json:"conn"`
	Rs   []Resp `json:"rs"`
}

// Step is one step of a history.
type Step struct {
	Op   string  `json:"op"` // post | open | close | resp | par
	Cfg  *Config `json:"cfg,omitempty"`
	Conn int     `json:"conn,omitempty"`
	R    *Resp   `json:"r,omitempty"`
	Par  []Lane  `json:"par,omitempty"`
	// post: the document arrives slowly; the connections listed are opened (and
	// accepted) after the request has begun and before its body is complete
	During []int `json:"during,omitempty"`
	// open, conn level: the shaped connection wraps a connection whose Close
	// closes it and then reports an error (as tls.Conn.Close does when the
	// close_notify alert cannot be sent any more)
	Faulty bool `json:"faulty,omitempty"`
	// close: the client goes away abortively (SO_LINGER 0: RST, no TLS close_notify)
	Abort bool `json:"abort,omitempty"`
}

// Case is a history against one shaped listener.
type Case struct {
	Level string `json:"level"`         // conn | e2e
	Res   bool   `json:"res,omitempty"` // account for bucket goroutines at the end
	Steps []Step `json:"steps"`
}

// ---------------------------------------------------------------- client side stream

type event struct {
	cum int
	at  time.Time
}

type stream struct {
	paused int32 // the client does not read (a peer that has stalled)
	mu    sync.Mutex
	buf   []byte
	ev    []event
	ended bool
	endAt time.Time
	err   error
}

func (s *stream) pump(c net.Conn) {
	tmp := make([]byte, 64<<10)
	for {
		for atomic.LoadInt32(&s.paused) == 1 {
			time.Sleep(2 * time.Millisecond)
		}
		c.SetReadDeadline(time.Now().Add(10 * time.Minute))
		n, err := c.Read(tmp)
		now := time.Now()
		s.mu.Lock()
		if n > 0 {
			s.buf = append(s.buf, tmp[:n]...)
			s.ev = append(s.ev, event{len(s.buf), now})
		}
		if err != nil {
			s.ended, s.endAt, s.err = true, now, err
			s.mu.Unlock()
			return
		}
		s.mu.Unlock()
	}
}

func (s *stream) state() (n int, ended bool) {
	s.mu.Lock()
	defer s.mu.Unlock()
	return len(s.buf), s.ended
}

func (s *stream) slice(from, to int) []byte {
	s.mu.Lock()
	defer s.mu.Unlock()
	if to > len(s.buf) {
		to = len(s.buf)
	}
	if from > to {
		from = to
	}
	return append([]byte(nil), s.buf[from:to]...)
}

// reached is when the stream first held cum bytes.
func (s *stream) reached(cum int) (time.Time, bool) {
	s.mu.Lock()
	defer s.mu.Unlock()
	for _, e := range s.ev {
		if e.cum >= cum {
			return e.at, true
		}
	}
	return time.Time{}, false
}

func (s *stream) end() (time.Time, bool) {
	s.mu.Lock()
	defer s.mu.Unlock()
	return s.endAt, s.ended
}

// waitLen waits until the stream holds n bytes or ended.
func (s *stream) waitLen(n int, bound time.Duration) bool {
	kit.Eventually(bound, func() bool {
		l, ended := s.state()
		return l >= n || ended
	})
	l, _ := s.state()
	return l >= n
}

func (s *stream) waitEnd(bound time.Duration) bool {
	return kit.Eventually(bound, func() bool { _, e := s.state(); return e })
}

// ---------------------------------------------------------------- world

type wconn struct {
	id       int
	cl       net.Conn
	st       *stream
	ts       *trafficshape.Conn // conn level, and e2e once the accept was seen
	cfg      *cfgM              // configuration active when the connection was accepted
	consumed int                // stream offset up to which responses were accounted
	dead     bool               // closed (by an action, by the harness, or found closed)
	gone     bool               // closed by the client side of the harness
	latency  int64              // ms, latency configured when the connection was accepted
	wrote    bool               // a response was written on it already
	raw      net.Conn           // the client's TCP connection (under TLS at the mitm level)
	outer    *trafficshape.Conn // conn level, faulty: the accepted connection under the wrapped one
}

// faultyConn closes the connection it wraps and reports a failure all the same.
type faultyConn struct {
	net.Conn
}

func (f *faultyConn) Close() error {
	f.Conn.Close()
	return errors.New("close failed after closing (harness)")
}

type tracked struct {
	b    *trafficshape.Bucket
	kind string // conn | shape
	cfg  *cfgM
}

type recListener struct {
	*trafficshape.Listener
	mu    sync.Mutex
	conns []*trafficshape.Conn
}

func (r *recListener) Accept() (net.Conn, error) {
	c, err := r.Listener.Accept()
	if err == nil {
		if ts, ok := c.(*trafficshape.Conn); ok {
			r.mu.Lock()
			r.conns = append(r.conns, ts)
			r.mu.Unlock()
		}
	}
	return c, err
}

func (r *recListener) accepted() []*trafficshape.Conn {
	r.mu.Lock()
	defer r.mu.Unlock()
	return append([]*trafficshape.Conn(nil), r.conns...)
}

type world struct {
	level string
	T     time.Duration
	v     kit.Verdict

	base net.Listener
	tsl  *trafficshape.Listener
	h    *trafficshape.Handler

	// e2e, mitm
	pool   *x509.CertPool
	rec    *recListener
	pr     *netkit.Proxy
	origin *netkit.Origin
	omu    sync.Mutex
	script map[string][]byte
	sclose map[string]bool

	conns  map[int]*wconn
	active *cfgM
	epoch  int
	seq    int

	baseline int
	track    []*tracked
	rejected int // shapes named by rejected documents
	progress int64
	abort    bool // writers are stuck holding the shape locks: nothing more can be done with this listener
	lclosed  int32 // Listener.Close has been called: no further connections
}

// wire reports whether a real proxy writes the responses (e2e, mitm).
func (w *world) wire() bool { return w.level != "conn" }

// blackBoxOnly (C18_BLACKBOX=1, development aid) switches off the two checks that
// read the listener's and the connection's own answers (Defaults/Latency/bitrates
// after a rejected POST, GetCurrentThrottle at the range start), leaving only what a
// client can observe: used to confirm that the timing oracles catch the same defects.
var blackBoxOnly = os.Getenv("C18_BLACKBOX") == "1"

// confirmedLeaks remembers which goroutine-count leak signatures this process
// has already re-validated with the long bound; later occurrences of the same
// signature are reported after the plain bound.
var confirmedLeaks sync.Map

var loopRe = regexp.MustCompile(`trafficshape\.\(\*Bucket\)\.loop`)

func newWorld(level string, T time.Duration, res bool) *world {
	w := &world{level: level, T: T, conns: map[int]*wconn{}, script: map[string][]byte{}, sclose: map[string]bool{}}
	if res {
		w.baseline = kit.GoroutinesMatching(loopRe)
	}
	if level == "conn" {
		l, err := netkit.Listen()
		if err != nil {
			panic(err)
		}
		w.base = l
		w.tsl = trafficshape.NewListener(l)
	} else {
		serve := func(r *netkit.ReqLog) netkit.Script {
			w.omu.Lock()
			raw := w.script[r.Path]
			after := ""
			if w.sclose[r.Path] {
				after = "close"
			}
			w.omu.Unlock()
			if raw == nil {
				raw = []byte("HTTP/1.1 500 Unscripted\r\nContent-Length: 0\r\n\r\n")
			}
			return netkit.Script{Raw: raw, CutAt: -1, After: after}
		}
		p := martian.NewProxy()
		if level == "mitm" {
			w.origin = netkit.NewTLSOrigin(netkit.ServerTLS(host), serve)
			mc, pool, err := netkit.MITM()
			if err != nil {
				panic(err)
			}
			w.pool = pool
			netkit.UpstreamTLS(p)
			p.SetMITM(mc)
		} else {
			w.origin = netkit.NewOrigin(serve)
		}
		// requests under /hj/ are hijacked by a request modifier, which writes the scripted
		// bytes to the connection it is handed and returns
		p.SetRequestModifier(martian.RequestModifierFunc(func(req *http.Request) error {
			if !strings.HasPrefix(req.URL.Path, "/hj/") {
				return nil
			}
			w.omu.Lock()
			raw := w.script[req.URL.Path]
			w.omu.Unlock()
			conn, _, err := martian.NewContext(req).Session().Hijack()
			if err != nil {
				return err
			}
			conn.SetWriteDeadline(time.Now().Add(30 * time.Second))
			conn.Write(raw)
			return nil
		}))
		d := &netkit.Dialer{Route: func(string) string { return w.origin.Addr }}
		p.SetDial(d.Dial)
		p.SetTimeout(60 * time.Second)
		w.pr = netkit.Start(p, func(l net.Listener) net.Listener {
			w.tsl = trafficshape.NewListener(l)
			w.rec = &recListener{Listener: w.tsl}
			return w.rec
		})
	}
	w.h = trafficshape.NewHandler(w.tsl)
	return w
}

func isClosed(b *trafficshape.Bucket) bool {
	_, err := b.Fill(func(int64) (int64, error) { return 0, nil })
	return err != nil && err != trafficshape.ErrBucketOverflow
}

func (w *world) shapeBuckets() []*trafficshape.Bucket {
	var out []*trafficshape.Bucket
	w.tsl.Shapes.RLock()
	for _, us := range w.tsl.Shapes.M {
		if us != nil && us.Shape != nil && us.Shape.WriteBucket != nil {
			out = append(out, us.Shape.WriteBucket)
		}
	}
	w.tsl.Shapes.RUnlock()
	return out
}

func (w *world) trackConn(ts *trafficshape.Conn, cfg *cfgM) {
	for _, bs := range ts.LocalBuckets {
		w.track = append(w.track, &tracked{b: bs.ReadBucket, kind: "conn", cfg: cfg}, &tracked{b: bs.WriteBucket, kind: "conn", cfg: cfg})
	}
}

// teardown closes everything the case opened, including what martian leaks,
// so that cases do not influence each other.
func (w *world) teardown() {
	for _, c := range w.conns {
		c.cl.Close()
		if c.ts != nil && w.level == "conn" {
			c.ts.Close()
		}
		if c.outer != nil {
			c.outer.Close()
		}
	}
	if w.wire() {
		w.pr.Stop(2 * time.Second)
		w.origin.Close()
		for _, ts := range w.rec.accepted() {
			w.trackConn(ts, nil)
		}
	} else {
		w.tsl.Close()
	}
	for _, t := range w.track {
		t.b.Close()
	}
	// best effort: the buckets of the configuration that was active last
	done := make(chan struct{})
	go func() {
		defer close(done)
		for _, b := range w.shapeBuckets() {
			b.Close()
		}
	}()
	select {
	case <-done:
	case <-time.After(200 * time.Millisecond): // the shape lock is held by stuck goroutines
	}
	// Listener.Close leaves a goroutine behind that waits for the last connection: let it
	// finish inside the case, so that a panic there (it kills the process) is journalled
	// with the case that caused it instead of striking between two cases.
	kit.Eventually(300*time.Millisecond, func() bool { return kit.GoroutinesMatching(listenerCloseRe) == 0 })
}

var listenerCloseRe = regexp.MustCompile(`trafficshape\.\(\*Listener\)\.Close`)

func (w *world) failf(sig, format string, args ...interface{}) { w.v.Addf(sig, format, args...) }

// ---------------------------------------------------------------- steps

func (w *world) post(cfg Config, during []int) {
	var old []*trafficshape.Bucket
	old = w.shapeBuckets()
	type listenerDefaults struct {
		d            trafficshape.Default
		latency      time.Duration
		readB, writB int64
	}
	snap := func() listenerDefaults {
		out := listenerDefaults{latency: w.tsl.Latency(), readB: w.tsl.ReadBitrate(), writB: w.tsl.WriteBitrate()}
		if d := w.tsl.Defaults(); d != nil {
			out.d = *d
		}
		return out
	}
	before := snap()
	rw := httptest.NewRecorder()
	if len(during) == 0 {
		req, _ := http.NewRequest("POST", "http://martian.proxy/shape-traffic", bytes.NewReader(cfg.JSON()))
		panicked := func() (p interface{}) {
			defer func() { p = recover() }()
			w.h.ServeHTTP(rw, req)
			return nil
		}()
		if panicked != nil {
			// behind net/http this kills the request's goroutine and the client gets no answer at all
			w.failf("C18/config/invalid-"+cfg.Why()+"/handler-panic", "the handler panicked on the document %s: %v", trunc(cfg.JSON(), 200), panicked)
			w.abort = true
			return
		}
	} else {
		// slow upload: the handler has the request and waits for the rest of its
		// body while connections are accepted; they predate the configuration
		doc := cfg.JSON()
		pr, pw := io.Pipe()
		req, _ := http.NewRequest("POST", "http://martian.proxy/shape-traffic", pr)
		served := make(chan struct{})
		go func() { defer close(served); w.h.ServeHTTP(rw, req) }()
		half := len(doc) / 2
		pw.Write(doc[:half]) // returns once the handler has consumed it
		time.Sleep(time.Millisecond)
		for _, id := range during {
			w.open(id, false)
		}
		time.Sleep(time.Millisecond)
		pw.Write(doc[half:])
		pw.Close()
		select {
		case <-served:
		case <-time.After(w.T):
			w.failf("C18/config/slow-upload/handler-stuck-timeout", "the handler did not answer within %v after the body was complete", w.T)
			w.abort = true
			return
		}
	}
	if after := snap(); rw.Code != 200 && after != before && !blackBoxOnly {
		w.failf("C18/config/rejected/listener-defaults-changed", "a document answered %d changed the listener's defaults (Defaults, Latency, ReadBitrate, WriteBitrate) from %+v to %+v: %s", rw.Code, before, after, trunc(cfg.JSON(), 400))
	}
	valid := cfg.Valid()
	accepted := rw.Code == 200
	switch {
	case valid && rw.Code != 200:
		w.failf("C18/config/valid/rejected", "a valid configuration was answered %d: %s | %s", rw.Code, trunc(rw.Body.Bytes(), 200), trunc(cfg.JSON(), 600))
	case !valid && rw.Code == 200:
		w.failf("C18/config/invalid-"+cfg.Why()+"/accepted", "an invalid configuration (%s) was answered 200: %s", cfg.Why(), trunc(cfg.JSON(), 600))
	case !valid && rw.Code != 400:
		w.failf("C18/config/invalid/status-not-400", "an invalid configuration was answered %d, want 400: %s", rw.Code, trunc(cfg.JSON(), 600))
	}
	if accepted {
		// what the proxy now does is what it accepted, even if it should not have
		w.epoch++
		for _, b := range old {
			w.track = append(w.track, &tracked{b: b, kind: "shape", cfg: w.active})
		}
		if valid {
			w.active = buildModel(cfg, w.epoch)
		} else {
			// what the listener does now is not a configuration the model knows
			w.active = &cfgM{epoch: w.epoch}
			w.abort = true
		}
	} else {
		w.rejected += cfg.shapesNamed()
	}
}

func (w *world) open(id int, faulty bool) {
	if _, dup := w.conns[id]; dup {
		return
	}
	if atomic.LoadInt32(&w.lclosed) != 0 {
		return
	}
	var addr string
	if w.level == "conn" {
		addr = w.base.Addr().String()
	} else {
		addr = w.pr.Addr
	}
	before := 0
	if w.wire() {
		before = len(w.rec.accepted())
	}
	cl, err := net.DialTimeout("tcp", addr, 5*time.Second)
	if err != nil {
		w.failf("C18/harness/dial-error-timeout", "dial: %v", err)
		return
	}
	wc := &wconn{id: id, cl: cl, raw: cl, st: &stream{}, cfg: w.active}
	if w.active != nil {
		wc.latency = w.active.latency
	}
	if w.level == "mitm" {
		// CONNECT, then TLS with the proxy's forged certificate: from here on
		// the proxy writes through a second shaped connection wrapping the TLS one
		cl.SetDeadline(time.Now().Add(w.T))
		fmt.Fprintf(cl, "CONNECT %s:443 HTTP/1.1\r\nHost: %s:443\r\n\r\n", host, host)
		br := bufio.NewReader(cl)
		res, err := http.ReadResponse(br, &http.Request{Method: "CONNECT"})
		if err != nil || res.StatusCode != 200 || br.Buffered() != 0 {
			w.failf("C18/mitm/connect/no-200-timeout", "CONNECT through the shaped listener: %v %v", res, err)
			cl.Close()
			return
		}
		tc := tls.Client(cl, &tls.Config{RootCAs: w.pool, ServerName: host})
		if err := tc.Handshake(); err != nil {
			w.failf("C18/mitm/handshake/failed-timeout", "TLS handshake with the proxy: %v", err)
			cl.Close()
			return
		}
		cl.SetDeadline(time.Time{})
		wc.cl = tc
	}
	go wc.st.pump(wc.cl)
	if w.level == "conn" {
		type acc struct {
			c   net.Conn
			err error
		}
		ch := make(chan acc, 1)
		go func() { c, err := w.tsl.Accept(); ch <- acc{c, err} }()
		select {
		case a := <-ch:
			if a.err != nil {
				w.failf("C18/conn/accept/error", "Accept: %v", a.err)
				cl.Close()
				return
			}
			ts, ok := a.c.(*trafficshape.Conn)
			if !ok {
				w.failf("C18/conn/accept/not-a-shaped-connection", "Accept returned %T", a.c)
				cl.Close()
				return
			}
			wc.ts = ts
			if faulty {
				// what proxy.go does around a TLS session: a second shaped
				// connection over a connection that is not the accepted one
				wc.outer = ts
				w.trackConn(ts, w.active)
				wc.ts = w.tsl.GetTrafficShapedConn(&faultyConn{Conn: ts})
			}
		case <-time.After(w.T):
			w.failf("C18/conn/accept/stuck-timeout", "Accept did not return within %v for a completed dial", w.T)
			cl.Close()
			return
		}
	} else {
		if !kit.Eventually(w.T, func() bool { return len(w.rec.accepted()) > before }) {
			w.failf("C18/"+w.level+"/accept/stuck-timeout", "the proxy did not accept a dialled connection within %v", w.T)
			cl.Close()
			return
		}
		wc.ts = w.rec.accepted()[before]
	}
	w.trackConn(wc.ts, w.active)
	w.conns[id] = wc
}

func (w *world) closeConn(id int, abort bool) {
	wc := w.conns[id]
	if wc == nil || wc.gone {
		return
	}
	wc.dead, wc.gone = true, true
	if abort {
		// RST: nothing orderly reaches the other side (no FIN, no close_notify)
		netkit.Reset(wc.raw)
	}
	if w.level == "conn" {
		wc.ts.Close()
	}
	wc.cl.Close()
}

// setContext is what proxy.go does for every response on a shaped connection.
func setContext(ts *trafficshape.Conn, url string, rangeStart int64, headLen int64) (thr *trafficshape.ThrottleContext) {
	ts.Context = &trafficshape.Context{}
	for urlregex, buckets := range ts.LocalBuckets {
		if match, _ := regexp.MatchString(urlregex, url); match {
			if rangeStart > -1 {
				ts.Context = &trafficshape.Context{
					Shaping:            true,
					Buckets:            buckets,
					GlobalBucket:       ts.GlobalBuckets[urlregex],
					URLRegex:           urlregex,
					RangeStart:         rangeStart,
					ByteOffset:         rangeStart,
					HeaderLen:          headLen,
					HeaderBytesWritten: 0,
				}
				ts.Context.NextActionInfo = ts.GetNextActionFromByte(rangeStart)
				ts.Context.ThrottleContext = ts.GetCurrentThrottle(rangeStart)
				thr = ts.Context.ThrottleContext
				if ts.Context.ThrottleContext.ThrottleNow {
					ts.Context.Buckets.WriteBucket.SetCapacity(ts.Context.ThrottleContext.Bandwidth)
				}
			}
			break
		}
	}
	return thr
}

// obs is what was observed for one response.
type obs struct {
	wc    *wconn
	r     Resp
	seq   int
	url   string
	H, L  int
	start int64

	// server side (conn level)
	written int
	force   bool
	werr    error
	short   string
	t0      time.Time

	// derived / client side
	db       int  // body bytes delivered
	cut      bool // ended before the body was complete
	dur      time.Duration
	skip     bool // nothing can be said (failure already recorded)
	shape    *shapeM
	stale    bool
	beyond   bool // e2e: some expectation concerned an offset outside the first 4 KiB written
	certain  int64
	crossedH []*act
	latency  int64                        // ms the connection owes before its first byte (first response only)
	ambiguous bool                         // odd Content-Range: range start undefined, prefix integrity only
	thr      *trafficshape.ThrottleContext // conn level: what GetCurrentThrottle told the harness-as-proxy
}

func headBytes(r Resp, seq int) []byte {
	n := r.Head
	if n < 20 {
		n = 20
	}
	h := []byte(fmt.Sprintf("HTTP/1.1 200 OK\r\nX-Seq: %d\r\nX-Pad: ", seq))
	for len(h) < n-4 {
		h = append(h, kit.Text(r.Seed+uint64(seq), 1)[0])
	}
	h = append(h[:n-4], "\r\n\r\n"...)
	return h
}

// laneWorker writes the responses of one connection (conn level). Its name is
// looked for in goroutine dumps.
func laneWorker(w *world, wc *wconn, rs []Resp, seqs []int, out *[]*obs, id *int64, done chan<- struct{}) {
	defer close(done)
	atomic.StoreInt64(id, gid())
	for i, r := range rs {
		o := &obs{wc: wc, r: r, seq: seqs[i], url: urlFor(r.Pat, seqs[i]), start: r.Start}
		head := headBytes(r, seqs[i])
		body := kit.Bytes(r.Seed, r.Body)
		o.H, o.L = len(head), len(body)
		msg := append(append([]byte(nil), head...), body...)
		o.thr = setContext(wc.ts, o.url, r.Start, int64(len(head)))
		atomic.AddInt64(&w.progress, 1)
		o.t0 = time.Now()
		pos, k := 0, 0
		for pos < len(msg) {
			n := 1 << 20
			if len(r.Splits) > 0 {
				n = r.Splits[k%len(r.Splits)]
				k++
			}
			if n < 1 {
				n = 1
			}
			end := pos + n
			if end > len(msg) {
				end = len(msg)
			}
			wrote, err := wc.ts.Write(msg[pos:end])
			atomic.AddInt64(&w.progress, 1)
			if r.LClose && end < len(msg) && atomic.CompareAndSwapInt32(&w.lclosed, 0, 1) {
				w.tsl.Close() // the rest of this response is still to be written
			}
			if wrote < 0 || wrote > end-pos {
				o.short = fmt.Sprintf("Write of %d bytes returned n=%d", end-pos, wrote)
				break
			}
			o.written += wrote
			if err != nil {
				var efc *trafficshape.ErrForceClose
				if errors.As(err, &efc) {
					o.force = true
				} else {
					o.werr = err
				}
				break
			}
			if wrote != end-pos {
				o.short = fmt.Sprintf("Write of %d bytes returned n=%d and no error", end-pos, wrote)
				break
			}
			pos = end
		}
		*out = append(*out, o)
		if o.force || o.werr != nil || o.short != "" {
			wc.ts.Close()
			return
		}
	}
}

var gidRe = regexp.MustCompile(`^goroutine (\d+) \[([^\]]*)\]`)

// gid is the id of the calling goroutine.
func gid() int64 {
	buf := make([]byte, 64)
	buf = buf[:runtime.Stack(buf, false)]
	if m := gidRe.FindSubmatch(buf); m != nil {
		n, _ := strconv.ParseInt(string(m[1]), 10, 64)
		return n
	}
	return -1
}

// lockedUp reports whether every one of the given (unfinished) goroutines is
// blocked inside RWMutex.Lock/RLock - the shape locks - so that nobody is left
// who could release one. A throttled writer spinning on a full bucket, a
// sleeping halt or a socket write are not lock waits.
func lockedUp(ids []int64) (bool, string) {
	buf := make([]byte, 1<<20)
	for {
		n := runtime.Stack(buf, true)
		if n < len(buf) {
			buf = buf[:n]
			break
		}
		buf = make([]byte, 2*len(buf))
	}
	blocks := map[int64]string{}
	for _, b := range strings.Split(string(buf), "\n\n") {
		if m := gidRe.FindStringSubmatch(b); m != nil {
			n, _ := strconv.ParseInt(m[1], 10, 64)
			blocks[n] = b
		}
	}
	var dump []string
	all := len(ids) > 0
	for _, id := range ids {
		b, ok := blocks[id]
		if !ok {
			all = false
			continue
		}
		dump = append(dump, b)
		m := gidRe.FindStringSubmatch(b)
		if !(strings.HasPrefix(m[2], "sync.") || strings.HasPrefix(m[2], "semacquire")) || !strings.Contains(b, "sync.(*RWMutex).") {
			all = false
		}
	}
	return all, strings.Join(dump, "\n\n")
}

// runLanes runs the lanes concurrently and waits for them.
// verdict: "" finished, "deadlock", "stuck".
func (w *world) runLanes(lanes []Lane, extra time.Duration, poster func(stop <-chan struct{})) (res [][]*obs, verdict, detail string) {
	res = make([][]*obs, len(lanes))
	dones := make([]chan struct{}, 0, len(lanes)+1)
	ids := make([]*int64, 0, len(lanes)+1)
	for i, ln := range lanes {
		wc := w.conns[ln.Conn]
		if wc == nil || wc.dead {
			continue
		}
		seqs := make([]int, len(ln.Rs))
		for j := range seqs {
			w.seq++
			seqs[j] = w.seq
		}
		d := make(chan struct{})
		dones = append(dones, d)
		id := new(int64)
		ids = append(ids, id)
		go laneWorker(w, wc, ln.Rs, seqs, &res[i], id, d)
	}
	stop := make(chan struct{})
	var pd chan struct{}
	pid := new(int64)
	if poster != nil {
		pd = make(chan struct{})
		go func() { defer close(pd); atomic.StoreInt64(pid, gid()); poster(stop) }()
	}
	deadline := time.Now().Add(w.T + extra)
	last, still := int64(-1), 0
	lanesDone := false
	for {
		unfinished := 0
		var busy []int64
		for i, d := range dones {
			select {
			case <-d:
			default:
				unfinished++
				busy = append(busy, atomic.LoadInt64(ids[i]))
			}
		}
		if unfinished == 0 && !lanesDone {
			lanesDone = true
			close(stop)
		}
		posterBusy := 0
		if pd != nil {
			select {
			case <-pd:
			default:
				posterBusy = 1
				busy = append(busy, atomic.LoadInt64(pid))
			}
		}
		if unfinished == 0 && posterBusy == 0 {
			return res, "", ""
		}
		p := atomic.LoadInt64(&w.progress)
		if p == last {
			still++
		} else {
			last, still = p, 0
		}
		if still >= 4 {
			if ok, dump := lockedUp(busy); ok {
				if !lanesDone {
					close(stop)
				}
				return res, "deadlock", dump
			}
		}
		if time.Now().After(deadline) {
			if !lanesDone {
				close(stop)
			}
			_, dump := lockedUp(busy)
			return res, "stuck", dump
		}
		time.Sleep(25 * time.Millisecond)
	}
}

// expectedDelay is a generous estimate of what the configured halts and
// throttles may add to a group (only used to extend the liveness bound).
func (w *world) expectedDelay(lanes []Lane) time.Duration {
	var ms int64
	for _, ln := range lanes {
		wc := w.conns[ln.Conn]
		if wc == nil || wc.cfg == nil {
			continue
		}
		ms += 60 // latency
		for _, r := range ln.Rs {
			if s := wc.cfg.byPat(r.Pat); s != nil {
				for _, a := range s.acts {
					ms += a.dur
				}
				for _, t := range s.thrs {
					if t.bw < 1<<20 {
						ms += 1000 * (int64(r.Body)/t.bw + 3)
					}
				}
				if s.maxbw > 0 && s.maxbw < 1<<20 {
					ms += 1000 * (int64(r.Body)/s.maxbw + 3)
				}
			}
		}
	}
	return time.Duration(ms) * time.Millisecond
}

func (w *world) sharedActions(lanes []Lane) bool {
	seen := map[*shapeM]int{}
	for _, ln := range lanes {
		wc := w.conns[ln.Conn]
		if wc == nil || wc.cfg == nil {
			continue
		}
		mine := map[*shapeM]bool{}
		for _, r := range ln.Rs {
			if s := wc.cfg.byPat(r.Pat); s != nil && len(s.acts) > 0 {
				mine[s] = true
			}
		}
		for s := range mine {
			seen[s]++
		}
	}
	for _, n := range seen {
		if n >= 2 {
			return true
		}
	}
	return false
}

// group runs lanes (conn level) and evaluates them.
func (w *world) group(lanes []Lane) {
	res, verdict, detail := w.runLanes(lanes, w.expectedDelay(lanes), nil)
	if verdict != "" {
		shape := "independent-connections"
		if w.sharedActions(lanes) {
			shape = "same-shape-actions"
		}
		if len(lanes) == 1 {
			shape = "single-connection"
		}
		if verdict == "deadlock" {
			w.failf("C18/concurrent/"+shape+"/writers-deadlocked", "every unfinished writer waits for a lock, nobody is left to release one:\n%s", trunc([]byte(detail), 3500))
		} else {
			w.failf("C18/concurrent/"+shape+"/writers-stuck-timeout", "writers did not finish within the bound:\n%s", trunc([]byte(detail), 3500))
		}
		for _, ln := range lanes {
			if wc := w.conns[ln.Conn]; wc != nil {
				wc.dead = true
			}
		}
		w.abort = true
		return
	}
	var all []*obs
	for _, lane := range res {
		for _, o := range lane {
			w.settleConn(o)
			all = append(all, o)
		}
	}
	w.evaluate(all)
}

// settleConn compares what the client got with what Write reported (conn level).
func (w *world) settleConn(o *obs) {
	wc := o.wc
	lbl := w.label(o)
	msg := append(headBytes(o.r, o.seq), kit.Bytes(o.r.Seed, o.r.Body)...)
	if o.short != "" {
		w.failf("C18/conn/"+lbl+"/write-count-wrong", "%s (response %s, head %d, body %d)", o.short, o.url, o.H, o.L)
		o.skip = true
	}
	if o.werr != nil {
		w.failf("C18/conn/"+lbl+"/write-error", "Write failed with %v after %d of %d bytes (response %s)", o.werr, o.written, len(msg), o.url)
		o.skip = true
	}
	want := wc.consumed + o.written
	if !wc.st.waitLen(want, w.T) {
		n, ended := wc.st.state()
		w.failf("C18/conn/"+lbl+"/delivery-timeout", "Write reported %d bytes for %s but the client holds %d of them (stream ended: %v) after %v", o.written, o.url, n-wc.consumed, ended, w.T)
		o.skip = true
		wc.dead = true
		return
	}
	got := wc.st.slice(wc.consumed, want)
	if !bytes.Equal(got, msg[:o.written]) {
		w.failf("C18/conn/"+lbl+"/bytes-differ", "client bytes differ from the bytes written for %s (head %d, body %d, splits %v): %s", o.url, o.H, o.L, o.r.Splits, kit.Diff(msg[:o.written], got))
		o.skip = true
	}
	doneAt, _ := wc.st.reached(want)
	wc.consumed = want
	if o.force || o.werr != nil || o.short != "" {
		wc.dead = true
		if !wc.st.waitEnd(w.T) {
			w.failf("C18/conn/"+lbl+"/no-eof-after-close-timeout", "connection closed by the server side but the client saw no end of stream within %v", w.T)
		} else if n, _ := wc.st.state(); n != want {
			w.failf("C18/conn/"+lbl+"/stray-bytes", "%d bytes arrived beyond what Write reported for %s", n-want, o.url)
			o.skip = true
		}
		if at, ok := wc.st.end(); ok {
			doneAt = at
		}
	}
	o.dur = doneAt.Sub(o.t0)
	if o.written < o.H && !o.skip {
		if o.force {
			w.failf("C18/conn/"+lbl+"/cut-inside-head", "forced close after %d bytes of a %d byte head (%s)", o.written, o.H, o.url)
		}
		o.skip = true
	}
	o.db = o.written - o.H
	o.cut = o.written < o.H+o.L
	if !o.force && o.cut && !o.skip {
		w.failf("C18/conn/"+lbl+"/write-count-wrong", "all writes returned without error but reported %d of %d bytes", o.written, o.H+o.L)
		o.skip = true
	}
}

func (w *world) label(o *obs) string {
	wc := o.wc
	var base string
	switch {
	case o.r.Pat < 0 || wc.cfg.byPat(o.r.Pat) == nil:
		base = "non-matching"
	case o.r.Start < 0:
		base = "no-range-start"
	case wc.cfg != w.active:
		base = "stale-connection"
	case o.r.Start > 0:
		base = "matching-range"
	default:
		base = "matching"
	}
	if w.wire() {
		if base == "matching-range" {
			base = "matching" // the end-to-end failure shapes do not depend on the range start
		}
		fr := "cl-"
		if o.r.Chunked {
			fr = "chunked-"
		}
		base = fr + base
		if o.r.CR != "" {
			base = fr + "odd-content-range"
		}
		if o.r.Status != 0 && o.r.Status != 206 {
			base = fr + "matching-other-status"
			if o.r.Pat < 0 || wc.cfg.byPat(o.r.Pat) == nil {
				base = fr + "non-matching"
			}
		}
		if o.r.Star && (o.r.Start > 0 || o.r.P206) {
			base += "-unknown-total"
		}
	}
	return base
}

func (w *world) sig(o *obs, class string) string {
	lbl := w.label(o)
	if o.beyond && !strings.HasSuffix(lbl, "-unknown-total") {
		lbl += "-beyond-first-buffer"
	}
	return "C18/" + w.level + "/" + lbl + "/" + class
}

// evaluate applies the oracle to a group of responses that ran concurrently
// (a group of one for sequential steps) and advances the model.
func (w *world) evaluate(group []*obs) {
	type tally struct {
		crossers []*obs // reached the action (those cut by it included)
		cuts     []*obs
		boundary int // reached it with their very last byte
	}
	tallies := map[*act]*tally{}
	order := []*act{}
	get := func(a *act) *tally {
		t := tallies[a]
		if t == nil {
			t = &tally{}
			tallies[a] = t
			order = append(order, a)
		}
		return t
	}
	for _, o := range group {
		// a connection sleeps its latency once before its first write (the
		// latency it was accepted with)
		if !o.wc.wrote {
			o.wc.wrote = true
			o.latency = o.wc.latency
		}
	}
	for _, o := range group {
		if o.skip {
			continue
		}
		wc := o.wc
		shape := wc.cfg.byPat(o.r.Pat)
		o.stale = wc.cfg != w.active
		if shape == nil || o.start < 0 || o.stale {
			// not shaped by the active configuration: complete and uncut
			if !o.cut {
				continue
			}
			legal := false
			if o.stale && shape != nil && o.start >= 0 {
				// the statement does not say whether the configuration a
				// connection was accepted under keeps applying to it
				for _, a := range shape.acts {
					if a.kind == 'c' && a.at-o.start == int64(o.db) {
						legal = true
					}
				}
			}
			if !legal {
				w.failf(w.sig(o, "cut"), "response %s (head %d, body %d, range start %d) must not be shaped here but ended after %d body bytes", o.url, o.H, o.L, o.start, o.db)
			}
			continue
		}
		o.shape = shape
		if o.thr != nil && !blackBoxOnly {
			// what the shaped connection told the proxy about the throttle at the range start
			bw, in := shape.throttleAt(o.start)
			if in != o.thr.ThrottleNow || (in && bw != o.thr.Bandwidth) {
				w.failf(w.sig(o, "throttle-at-range-start-wrong"), "response %s starts at offset %d; the shape's throttles %v put it in a throttle: %v (bandwidth %d), GetCurrentThrottle answered %+v", o.url, o.start, shape.thrs, in, bw, *o.thr)
			}
		}
		if o.r.Chunked && !o.ambiguous && o.cut {
			// the statement counts body bytes: a cut chunked response carries exactly the
			// body bytes in front of a close action's offset (martian counts the chunk framing too)
			at := false
			for _, a := range shape.acts {
				if a.kind == 'c' && a.at-o.start == int64(o.db) {
					at = true
				}
			}
			if !at {
				w.failf("C18/"+w.level+"/chunked-matching/cut-short-of-action-offset", "chunked response %s (body %d, range start %d) was cut after %d body bytes = offset %d; the shape's actions: %v", o.url, o.L, o.start, o.db, o.start+int64(o.db), shape.acts)
			}
		}
		if o.r.Chunked || o.ambiguous {
			// offsets count wire bytes: only prefix integrity is decided, and
			// the counts this response may have consumed are unknown
			for _, a := range shape.acts {
				if a.at >= o.start && a.lo < inf {
					a.lo = 0
				}
				if a.at >= o.start && a.kind == 'c' && a.hi > 0 {
					// a close action may also fire on the last wire byte, after
					// the complete response: the connection is not used further
					wc.dead = true
				}
			}
			continue
		}
		explained := false
		for _, a := range shape.acts {
			if a.at < o.start {
				continue
			}
			off := a.at - o.start
			if o.L == 0 || off > int64(o.L) {
				break
			}
			if off == int64(o.L) {
				// reached with the very last byte: the statement does not say
				// whether the action still applies
				get(a).boundary++
				if a.kind == 'c' && w.wire() {
					wc.dead = true
				}
				continue
			}
			if int64(o.db) < off {
				break
			}
			t := get(a)
			t.crossers = append(t.crossers, o)
			if a.kind == 'c' && int64(o.db) == off && o.cut {
				t.cuts = append(t.cuts, o)
				explained = true
				break
			}
		}
		if o.cut && !explained {
			w.failf(w.sig(o, "cut-at-no-action"), "response %s (head %d, body %d, range start %d) ended after %d body bytes = offset %d, where the matching shape has no close action: %v", o.url, o.H, o.L, o.start, o.db, o.start+int64(o.db), shape.acts)
		}
		if !o.cut && o.force {
			// a forced close after the complete body: only a close action at the end offset explains it
			ok := false
			for _, a := range shape.acts {
				if a.kind == 'c' && a.at-o.start == int64(o.L) && a.hi > 0 && o.L > 0 {
					ok = true
				}
			}
			if !ok {
				w.failf(w.sig(o, "forced-close-without-action"), "forced close reported after the complete response %s (body %d, range start %d); actions %v", o.url, o.L, o.start, shape.acts)
			}
		}
	}
	// counts
	for _, a := range order {
		t := tallies[a]
		X, U := int64(len(t.crossers)), int64(t.boundary)
		lo := sub(a.lo, U)
		if a.kind == 'c' {
			c := int64(len(t.cuts))
			lower, upper := minI(lo, X), minI(a.hi, X)
			failed := false
			if c < lower {
				failed = true
				var passer *obs
				for _, o := range t.crossers {
					if !(o.cut && int64(o.db) == a.at-o.start) {
						passer = o
						break
					}
				}
				w.mark(passer, a)
				w.failf(w.sig(passer, "not-cut-at-close"), "%d matching response(s) reached offset %d where %v was available, %d were cut there; e.g. %s (head %d, body %d, range start %d) arrived with %d body bytes", X, a.at, a, c, passer.url, passer.H, passer.L, passer.start, passer.db)
			}
			if c > upper {
				failed = true
				w.mark(t.cuts[0], a)
				w.failf(w.sig(t.cuts[0], "cut-without-count"), "%d response(s) were cut at offset %d but %v allows %d", c, a.at, a, upper)
			}
			switch {
			case failed:
				a.lo = 0
			case c < X && a.lo < inf:
				// somebody passed uncut, which is legal only with the count used
				// up; the upper bound is kept (if that response was not shaped at
				// all - a defect reported elsewhere - the count is still there)
				a.lo, a.hi = 0, sub(a.hi, c)
			default:
				a.lo, a.hi = sub(a.lo, c+U), sub(a.hi, c)
			}
			continue
		}
		// halt
		if lo >= X {
			for _, o := range t.crossers {
				o.certain += a.dur
				o.crossedH = append(o.crossedH, a)
			}
		} else if lo > 0 && a.dur > 0 {
			n := int64(0)
			for _, o := range t.crossers {
				if o.dur >= time.Duration(float64(a.dur)*0.9*float64(time.Millisecond)) {
					n++
				}
			}
			if n < lo {
				w.mark(t.crossers[0], a)
				w.failf(w.sig(t.crossers[0], "contended-halt-too-fast"), "%d responses reached %v concurrently, at least %d of them must take %d ms, %d did", X, a, lo, a.dur, n)
			}
		}
		a.lo, a.hi = sub(a.lo, X+U), sub(a.hi, X)
	}
	// delays (lower bounds only)
	ms := func(x int64) time.Duration { return time.Duration(float64(x) * 0.9 * float64(time.Millisecond)) }
	for _, o := range group {
		if o.skip {
			continue
		}
		lat := ms(o.latency)
		var thr time.Duration
		var thrS float64
		var halts int64
		if o.shape != nil && !o.r.Chunked && !o.ambiguous {
			thrS = o.shape.throttleSeconds(o.start, o.start+int64(o.db))
			thr = time.Duration(thrS * float64(time.Second))
			halts = o.certain
		}
		if o.dur >= lat+thr+ms(halts) {
			continue
		}
		class := "halt-too-fast"
		switch {
		case o.dur < lat:
			class = "latency-too-fast"
		case o.dur < lat+thr:
			class = "throttle-too-fast"
			if w.wire() && o.H+o.L > 4096 {
				o.beyond = true
			}
		default:
			for _, a := range o.crossedH {
				w.mark(o, a)
			}
		}
		w.failf(w.sig(o, class), "response %s (head %d, body %d, range start %d, %d body bytes delivered) took %v; its connection owes a latency of %d ms, the halts it crossed (%v) add %d ms and its throttled ranges at least %.0f s", o.url, o.H, o.L, o.start, o.db, o.dur, o.latency, o.crossedH, halts, thrS)
	}
}

// mark notes that an expectation concerned an offset that the proxy writes
// after its first 4 KiB buffer (end-to-end shape of the failure).
func (w *world) mark(o *obs, a *act) {
	if w.wire() && o != nil && int64(o.H)+(a.at-o.start) > 4096 {
		o.beyond = true
	}
}

func minI(a, b int64) int64 {
	if a < b {
		return a
	}
	return b
}

func trunc(b []byte, n int) string {
	if len(b) > n {
		return string(b[:n]) + fmt.Sprintf("...(%d bytes)", len(b))
	}
	return string(b)
}

// ---------------------------------------------------------------- end-to-end response

func originResponse(r Resp) []byte {
	body := kit.Bytes(r.Seed, r.Body)
	var b bytes.Buffer
	status := "200 OK"
	if r.Start > 0 || r.P206 || r.Start < 0 || r.CR != "" {
		status = "206 Partial Content"
	}
	if r.Status != 0 {
		status = fmt.Sprintf("%d %s", r.Status, http.StatusText(r.Status))
	}
	fmt.Fprintf(&b, "HTTP/1.1 %s\r\nX-Origin: yes\r\n", status)
	if r.OClose {
		b.WriteString("Connection: close\r\n")
	}
	switch {
	case r.CR == "<missing>":
	case r.CR == "<empty>":
		b.WriteString("Content-Range:\r\n")
	case r.CR != "":
		fmt.Fprintf(&b, "Content-Range: %s\r\n", r.CR)
	case r.Start < 0:
		b.WriteString("Content-Type: multipart/byteranges; boundary=c18\r\n")
	case r.Start > 0 || r.P206:
		total := strconv.FormatInt(r.Start+int64(r.Body)+7, 10)
		if r.Star {
			total = "*"
		}
		fmt.Fprintf(&b, "Content-Range: bytes %d-%d/%s\r\n", r.Start, r.Start+int64(r.Body)-1, total)
	}
	if r.Chunked {
		b.WriteString("Transfer-Encoding: chunked\r\n\r\n")
		n := r.Chunk
		if n < 1 {
			n = 1000
		}
		for i := 0; i < len(body); i += n {
			e := i + n
			if e > len(body) {
				e = len(body)
			}
			fmt.Fprintf(&b, "%x\r\n", e-i)
			b.Write(body[i:e])
			b.WriteString("\r\n")
		}
		b.WriteString("0\r\n\r\n")
	} else {
		fmt.Fprintf(&b, "Content-Length: %d\r\n\r\n", len(body))
		b.Write(body)
	}
	return b.Bytes()
}

var crStartRe = regexp.MustCompile(`(\d+)-\d`)

// crNoStart: an odd Content-Range value in which no first-byte position can be
// read at all (no "digits-digits", or a number beyond int64): such a response has
// no range start and is not shaped. Everything else is ambiguous.
func crNoStart(cr string) bool {
	if cr == "<missing>" || cr == "<empty>" {
		return true
	}
	m := crStartRe.FindStringSubmatch(cr)
	if m == nil {
		return true
	}
	_, err := strconv.ParseInt(m[1], 10, 64)
	return err != nil
}

// dechunk decodes as much of a chunked body as is there.
func dechunk(b []byte) (data []byte, used int, complete, malformed bool) {
	for {
		i := bytes.Index(b[used:], []byte("\r\n"))
		if i < 0 {
			return data, used, false, len(b)-used > 32
		}
		line := string(b[used : used+i])
		if j := strings.IndexByte(line, ';'); j >= 0 {
			line = line[:j]
		}
		n, err := strconv.ParseInt(strings.TrimSpace(line), 16, 32)
		if err != nil || n < 0 {
			return data, used, false, true
		}
		p := used + i + 2
		if n == 0 {
			if len(b) >= p+2 {
				if string(b[p:p+2]) != "\r\n" {
					return data, used, false, true
				}
				return data, p + 2, true, false
			}
			return data, used, false, false
		}
		if len(b) < p+int(n) {
			data = append(data, b[p:]...)
			return data, len(b), false, false
		}
		data = append(data, b[p:p+int(n)]...)
		p += int(n)
		if len(b) < p+2 {
			return data, len(b), false, false
		}
		if string(b[p:p+2]) != "\r\n" {
			return data, used, false, true
		}
		used = p + 2
	}
}

// respE2E performs one exchange through the proxy.
func (w *world) respE2E(wc *wconn, r Resp) {
	w.seq++
	seq := w.seq
	o := &obs{wc: wc, r: r, seq: seq, url: urlFor(r.Pat, seq), start: r.Start, L: r.Body}
	path := o.url[len("http://"+host):]
	raw := originResponse(r)
	if r.Status != 0 && r.Status != 206 {
		// not a partial response: whatever its Content-Range says, it starts at offset 0
		r.Start, o.r.Start, o.start = 0, 0, 0
	} else if r.CR != "" {
		if crNoStart(r.CR) {
			r.Start, o.r.Start, o.start = -1, -1, -1
		} else {
			o.ambiguous = true // the statement does not say what the range start of such a response is
			if r.Start < 0 {
				r.Start, o.r.Start, o.start = 0, 0, 0
			}
		}
	}
	target := o.url
	if w.level == "mitm" {
		o.url = "https" + o.url[len("http"):]
		target = path
	}
	w.omu.Lock()
	w.script[path] = raw
	w.sclose[path] = r.OClose
	w.omu.Unlock()
	body := kit.Bytes(r.Seed, r.Body)
	lbl := w.label(o)
	fail := func(class, format string, args ...interface{}) {
		w.failf("C18/"+w.level+"/"+lbl+"/"+class, format, args...)
		o.skip = true
	}
	o.t0 = time.Now()
	wc.cl.SetWriteDeadline(time.Now().Add(w.T))
	reqClose := ""
	if r.ReqClose {
		reqClose = "Connection: close\r\n"
	}
	if _, err := wc.cl.Write([]byte(fmt.Sprintf("GET %s HTTP/1.1\r\nHost: %s\r\n%s\r\n", target, host, reqClose))); err != nil {
		fail("request-write-error", "writing the request for %s failed: %v (the connection should be open)", o.url, err)
		wc.dead = true
		return
	}
	bound := w.T + w.expectedDelay([]Lane{{Conn: wc.id, Rs: []Resp{r}}})
	// head
	var head []byte
	headOK := kit.Eventually(bound, func() bool {
		n, ended := wc.st.state()
		b := wc.st.slice(wc.consumed, n)
		if i := bytes.Index(b, []byte("\r\n\r\n")); i >= 0 {
			head = b[:i+4]
			return true
		}
		return ended
	})
	if head == nil {
		n, ended := wc.st.state()
		wc.dead = true
		if headOK && ended {
			fail("no-response-head", "connection ended with %d bytes and no complete response head for %s", n-wc.consumed, o.url)
		} else {
			fail("response-head-timeout", "no response head for %s within %v (%d bytes)", o.url, bound, n-wc.consumed)
		}
		return
	}
	o.H = len(head)
	if r.LClose && atomic.CompareAndSwapInt32(&w.lclosed, 0, 1) {
		w.tsl.Close() // what Proxy.Serve does when the proxy shuts down; exchanges in flight finish
	}
	lines := strings.Split(string(head), "\r\n")
	wantStatus := "200"
	if r.Start > 0 || r.P206 || r.Start < 0 || r.CR != "" {
		wantStatus = "206"
	}
	if r.Status != 0 {
		wantStatus = strconv.Itoa(r.Status)
	}
	if !strings.HasPrefix(lines[0], "HTTP/1.1 "+wantStatus) {
		fail("status-differs", "status line %q for %s, the origin answered %s", lines[0], o.url, wantStatus)
	}
	cl, chunked := -1, false
	for _, ln := range lines[1:] {
		k, val, _ := strings.Cut(ln, ":")
		val = strings.TrimSpace(val)
		switch strings.ToLower(k) {
		case "content-length":
			cl, _ = strconv.Atoi(val)
		case "transfer-encoding":
			chunked = strings.Contains(strings.ToLower(val), "chunked")
		}
	}
	if chunked != r.Chunked || (!chunked && cl != r.Body) {
		fail("framing-differs", "head for %s says content-length %d chunked %v; the origin sent %d bytes, chunked %v", o.url, cl, chunked, r.Body, r.Chunked)
		wc.dead = true
		return
	}
	bodyFrom := wc.consumed + o.H
	var got []byte
	complete := false
	endOfResp := 0
	if !chunked {
		complete = wc.st.waitLen(bodyFrom+cl, bound)
		n, _ := wc.st.state()
		if n > bodyFrom+cl {
			n = bodyFrom + cl
		}
		got = wc.st.slice(bodyFrom, n)
		endOfResp = n
	} else {
		var used int
		var bad bool
		kit.Eventually(bound, func() bool {
			n, ended := wc.st.state()
			got, used, complete, bad = dechunk(wc.st.slice(bodyFrom, n))
			return complete || bad || ended
		})
		if bad {
			fail("chunk-framing-damaged", "the chunked body of %s cannot be decoded after %d data bytes", o.url, len(got))
		}
		endOfResp = bodyFrom + used
	}
	if !bytes.HasPrefix(body, got) {
		fail("bytes-differ", "body bytes for %s differ from the origin's (head %d, body %d): %s", o.url, o.H, o.L, kit.Diff(body[:minInt(len(body), len(got))], got))
	}
	o.db = len(got)
	o.cut = !complete
	doneAt, _ := wc.st.reached(endOfResp)
	if !complete {
		wc.dead = true
		if !wc.st.waitEnd(bound) {
			fail("incomplete-response-timeout", "%d of %d body bytes of %s arrived and neither the rest nor the end of the connection followed within %v", o.db, o.L, o.url, bound)
			return
		}
		if n, _ := wc.st.state(); !chunked && n != endOfResp {
			fail("stray-bytes", "stray bytes after a cut response")
		}
		if at, ok := wc.st.end(); ok {
			doneAt = at
		}
		o.force = true
	}
	o.dur = doneAt.Sub(o.t0)
	wc.consumed = endOfResp
	if r.ReqClose || r.OClose {
		wc.dead = true // the proxy closes after this response
	}
	w.evaluate([]*obs{o})
}

// tunnelE2E sends CONNECT on a connection that has served exchanges before and
// fetches a response through the tunnel: nothing of it matches any shape, every
// byte must arrive.
func (w *world) tunnelE2E(id int, r Resp) {
	wc := w.conns[id]
	if wc == nil || wc.dead {
		return
	}
	w.seq++
	path := fmt.Sprintf("/t/r%d", w.seq)
	r.Start, r.P206, r.Chunked, r.Star = 0, false, false, false
	raw := originResponse(r)
	w.omu.Lock()
	w.script[path] = raw
	w.omu.Unlock()
	wc.dead = true // a tunnel is the last thing a connection does
	shape := "tunnel-on-fresh-connection"
	if wc.wrote {
		shape = "tunnel-after-exchanges"
	}
	fail := func(class, format string, args ...interface{}) {
		w.failf("C18/e2e/"+shape+"/"+class, format, args...)
	}
	wc.cl.SetWriteDeadline(time.Now().Add(w.T))
	fmt.Fprintf(wc.cl, "CONNECT %s:80 HTTP/1.1\r\nHost: %s:80\r\n\r\n", host, host)
	var head []byte
	kit.Eventually(w.T, func() bool {
		n, ended := wc.st.state()
		b := wc.st.slice(wc.consumed, n)
		if i := bytes.Index(b, []byte("\r\n\r\n")); i >= 0 {
			head = b[:i+4]
			return true
		}
		return ended
	})
	if head == nil || !bytes.HasPrefix(head, []byte("HTTP/1.1 200")) {
		n, ended := wc.st.state()
		class := "connect-not-answered-timeout"
		if ended {
			class = "connect-answer-cut"
		}
		fail(class, "CONNECT got %q (%d bytes, connection ended: %v)", trunc(wc.st.slice(wc.consumed, n), 80), n-wc.consumed, ended)
		return
	}
	wc.consumed += len(head)
	fmt.Fprintf(wc.cl, "GET %s HTTP/1.1\r\nHost: %s\r\n\r\n", path, host)
	want := wc.consumed + len(raw)
	if !wc.st.waitLen(want, w.T) {
		n, ended := wc.st.state()
		class := "tunnel-bytes-missing-timeout"
		if ended {
			class = "tunnel-cut"
		}
		fail(class, "%d of the %d bytes the target sent through the tunnel arrived (connection ended: %v); the connection had served %d bytes of exchanges before", n-wc.consumed, len(raw), ended, wc.consumed-len(head))
		return
	}
	if got := wc.st.slice(wc.consumed, want); !bytes.Equal(got, raw) {
		fail("tunnel-bytes-differ", "tunnel bytes differ: %s", kit.Diff(raw, got))
	}
	wc.consumed = want
}

// hijackE2E sends a request that the proxy's request modifier hijacks; the
// modifier writes a scripted message to the connection it got. Nothing of it is a
// response to a URL matching a shape: every byte must arrive.
func (w *world) hijackE2E(id int, r Resp) {
	wc := w.conns[id]
	if wc == nil || wc.dead {
		return
	}
	w.seq++
	path := fmt.Sprintf("/hj/r%d", w.seq)
	r.Start, r.P206, r.Chunked, r.Star, r.CR = 0, false, false, false, ""
	raw := originResponse(r)
	w.omu.Lock()
	w.script[path] = raw
	w.omu.Unlock()
	wc.dead = true
	shape := "hijack-on-fresh-connection"
	if wc.wrote {
		shape = "hijack-after-exchanges"
	}
	target := "http://" + host + path
	if w.level == "mitm" {
		target = path
	}
	wc.cl.SetWriteDeadline(time.Now().Add(w.T))
	fmt.Fprintf(wc.cl, "GET %s HTTP/1.1\r\nHost: %s\r\n\r\n", target, host)
	want := wc.consumed + len(raw)
	if !wc.st.waitLen(want, w.T) {
		n, ended := wc.st.state()
		class := "hijacker-bytes-missing-timeout"
		if ended {
			class = "hijacker-bytes-cut"
		}
		w.failf("C18/"+w.level+"/"+shape+"/"+class, "%d of the %d bytes the hijacking modifier wrote arrived (connection ended: %v); the connection had served %d bytes of exchanges before", n-wc.consumed, len(raw), ended, wc.consumed)
		return
	}
	if got := wc.st.slice(wc.consumed, want); !bytes.Equal(got, raw) {
		w.failf("C18/"+w.level+"/"+shape+"/hijacker-bytes-differ", "bytes differ: %s", kit.Diff(raw, got))
	}
	wc.consumed = want
}

func minInt(a, b int) int {
	if a < b {
		return a
	}
	return b
}

// ---------------------------------------------------------------- running a case

func (w *world) resp(id int, r Resp) {
	wc := w.conns[id]
	if wc == nil {
		return
	}
	if wc.dead {
		return
	}
	if _, ended := wc.st.state(); ended {
		// the peer closed a connection the model still considers open
		w.failf("C18/"+w.level+"/connection/closed-unexpectedly", "connection %d was closed by the proxy side although no close action applied (%v)", id, wc.st.err)
		wc.dead = true
		return
	}
	if w.level == "conn" {
		w.group([]Lane{{Conn: id, Rs: []Resp{r}}})
		return
	}
	w.respE2E(wc, r)
}

func (w *world) resources() {
	for id := range w.conns {
		w.closeConn(id, false)
	}
	expected := w.baseline + 2 + len(w.shapeBuckets())
	open := func(kind string) (n, of int) {
		for _, t := range w.track {
			if t.kind == kind {
				of++
				if !isClosed(t.b) {
					n++
				}
			}
		}
		return
	}
	settled := func() bool { return kit.GoroutinesMatching(loopRe) <= expected }
	if kit.Eventually(w.T, func() bool {
		a, _ := open("conn")
		b, _ := open("shape")
		return a == 0 && b == 0 && settled()
	}) {
		return
	}
	// buckets the harness holds handles of: open or closed is a fact, not a matter of waiting longer
	if n, of := open("conn"); n > 0 {
		w.failf("C18/resources/connection-closed/local-buckets-still-running", "%d of the %d per-connection buckets (one drain goroutine and ticker each) are still open %v after all %d shaped connections were closed", n, of, w.T, len(w.conns))
	}
	if n, of := open("shape"); n > 0 {
		w.failf("C18/resources/config-replaced/shape-buckets-still-running", "%d of the %d per-shape buckets of replaced configurations are still open %v after every connection was closed", n, of, w.T)
	}
	for _, t := range w.track {
		t.b.Close()
	}
	if kit.Eventually(w.T, settled) {
		return
	}
	sig, what := "C18/resources/unattributed/bucket-goroutines-still-running", "nothing in the history explains them"
	switch {
	case w.level == "mitm":
		sig, what = "C18/resources/mitm-connection-closed/inner-buckets-still-running", "they belong to the shaped connections the proxy wrapped around the TLS sessions"
	case w.rejected > 0:
		sig, what = "C18/resources/config-rejected/buckets-still-running", fmt.Sprintf("the history has rejected documents naming %d shapes", w.rejected)
	}
	if _, seen := confirmedLeaks.Load(sig); !seen && !kit.Shrinking() {
		// re-validate the expired wait: nothing changes any more, keep waiting
		if kit.Eventually(2*w.T, settled) {
			kit.Inconclusive("resources")
			return
		}
		confirmedLeaks.Store(sig, true)
	}
	w.failf(sig, "%d bucket drain goroutines more than baseline + listener + active shapes (%d) remain after all connections and all buckets the harness knows of were closed; %s", kit.GoroutinesMatching(loopRe)-expected, expected, what)
}

func runOnce(c Case, T time.Duration) kit.Verdict {
	w := newWorld(c.Level, T, c.Res)
	defer w.teardown()
	for _, st := range c.Steps {
		if w.abort {
			break
		}
		switch st.Op {
		case "post":
			if st.Cfg != nil {
				w.post(*st.Cfg, st.During)
			}
		case "tunnel":
			if st.R != nil && w.level == "e2e" {
				w.tunnelE2E(st.Conn, *st.R)
			}
		case "stalled-peer":
			if st.R != nil && w.level == "conn" {
				w.stalledPeer(st)
			}
		case "during-halt":
			if st.R != nil && w.level == "conn" {
				w.duringHalt(st)
			}
		case "hijack":
			if st.R != nil && w.wire() {
				w.hijackE2E(st.Conn, *st.R)
			}
		case "open":
			w.open(st.Conn, st.Faulty && w.level == "conn")
		case "close":
			w.closeConn(st.Conn, st.Abort)
		case "resp":
			if st.R != nil {
				w.resp(st.Conn, *st.R)
			}
		case "par":
			if w.level == "conn" {
				w.group(st.Par)
			}
		}
	}
	// nothing may arrive on a connection beyond the accounted responses
	for _, wc := range w.conns {
		if n, _ := wc.st.state(); n > wc.consumed && !wc.dead {
			w.failf("C18/"+w.level+"/connection/stray-bytes", "connection %d received %d bytes beyond its responses", wc.id, n-wc.consumed)
		}
	}
	if c.Res && !w.abort {
		w.resources()
	}
	return w.v
}

// duringHalt writes st.R on st.Conn; once the bytes in front of its first long halt have
// reached the client (the writer is sleeping in the halt now) it writes the responses of
// st.Par on their connections and posts st.Cfg. None of those is subject to that halt:
// they must be through well before the halted response resumes - by half the halt's
// duration, which is the only clock used (no absolute bound).
func (w *world) duringHalt(st Step) {
	wa := w.conns[st.Conn]
	if wa == nil || wa.dead {
		return
	}
	shape := wa.cfg.byPat(st.R.Pat)
	if shape == nil || wa.cfg != w.active {
		return
	}
	var halt *act
	for _, a := range shape.acts {
		if a.kind == 'h' && a.dur >= 200 && a.at >= st.R.Start && a.at-st.R.Start < int64(st.R.Body) && a.lo > 0 {
			halt = a
			break
		}
	}
	if halt == nil {
		return
	}
	D := time.Duration(halt.dur) * time.Millisecond
	w.seq++
	seqA := w.seq
	var resA []*obs
	doneA := make(chan struct{})
	go laneWorker(w, wa, []Resp{*st.R}, []int{seqA}, &resA, new(int64), doneA)
	before := wa.consumed + len(headBytes(*st.R, seqA)) + int(halt.at-st.R.Start)
	if !wa.st.waitLen(before, w.T) {
		w.failf("C18/concurrent/during-halt/bytes-before-halt-timeout", "the %d bytes in front of the halt did not arrive within %v", before-wa.consumed, w.T)
		w.abort = true
		return
	}
	time.Sleep(5 * time.Millisecond) // the writer goes from its last write into the halt
	type mark struct {
		what string
		at   time.Time
	}
	var marks []mark
	for _, ln := range st.Par {
		wb := w.conns[ln.Conn]
		if wb == nil || wb.dead || wb == wa {
			continue
		}
		for _, r := range ln.Rs {
			w.seq++
			var res []*obs
			done := make(chan struct{})
			go laneWorker(w, wb, []Resp{r}, []int{w.seq}, &res, new(int64), done)
			select {
			case <-done:
			case <-time.After(w.T + D):
				w.failf("C18/concurrent/other-connection-during-halt/stuck-timeout", "a response on another connection did not finish within %v while connection %d sat in a %v halt", w.T+D, wa.id, D)
				w.abort = true
				return
			}
			for _, o := range res {
				w.settleConn(o)
			}
			w.evaluate(res)
			marks = append(marks, mark{fmt.Sprintf("the response %s on connection %d", urlFor(r.Pat, w.seq), wb.id), time.Now()})
		}
	}
	if st.Cfg != nil {
		w.post(*st.Cfg, nil)
		marks = append(marks, mark{"the answer to a configuration POST", time.Now()})
	}
	select {
	case <-doneA:
	case <-time.After(w.T + D):
		w.failf("C18/concurrent/during-halt/halted-writer-stuck-timeout", "the halted response did not finish within %v", w.T+D)
		w.abort = true
		return
	}
	for _, o := range resA {
		w.settleConn(o)
	}
	w.evaluate(resA)
	resume, ok := wa.st.reached(before + 1)
	if !ok {
		return
	}
	for _, m := range marks {
		if m.at.Add(D / 2).After(resume) {
			shape := "other-connection-during-halt"
			if strings.Contains(m.what, "POST") {
				shape = "post-during-halt"
			}
			w.failf("C18/concurrent/"+shape+"/held-up-by-foreign-halt", "%s, started while connection %d slept in a %v halt that does not concern it, was through only %v before that response resumed (it needs about a millisecond; at least half the halt's duration is demanded)", m.what, wa.id, D, resume.Sub(m.at))
		}
	}
}

// stalledPeer: the client of st.Conn stops reading while a response too large for the
// socket buffers is written to it; the responses of st.Par on other connections - also of
// the same shape - must get through all the same.
func (w *world) stalledPeer(st Step) {
	wa := w.conns[st.Conn]
	if wa == nil || wa.dead {
		return
	}
	atomic.StoreInt32(&wa.st.paused, 1)
	defer atomic.StoreInt32(&wa.st.paused, 0)
	w.seq++
	var resA []*obs
	doneA := make(chan struct{})
	go laneWorker(w, wa, []Resp{*st.R}, []int{w.seq}, &resA, new(int64), doneA)
	time.Sleep(100 * time.Millisecond) // let the writer run into the full socket
	select {
	case <-doneA:
		return // everything fitted into the buffers: nothing was exercised
	default:
	}
	for _, ln := range st.Par {
		wb := w.conns[ln.Conn]
		if wb == nil || wb.dead || wb == wa {
			continue
		}
		for _, r := range ln.Rs {
			w.seq++
			var res []*obs
			done := make(chan struct{})
			go laneWorker(w, wb, []Resp{r}, []int{w.seq}, &res, new(int64), done)
			select {
			case <-done:
			case <-time.After(w.T):
				shape := "stalled-peer-other-shape"
				if r.Pat == st.R.Pat {
					shape = "stalled-peer-same-shape"
				}
				w.failf("C18/concurrent/"+shape+"/stuck-timeout", "a response on connection %d did not get through within %v while the client of connection %d had stopped reading a %d byte response", wb.id, w.T, wa.id, st.R.Body)
				w.abort = true
				wa.dead, wb.dead = true, true
				return
			}
			for _, o := range res {
				w.settleConn(o)
			}
			w.evaluate(res)
		}
	}
	atomic.StoreInt32(&wa.st.paused, 0)
	select {
	case <-doneA:
	case <-time.After(4 * w.T):
		w.failf("C18/concurrent/stalled-peer/writer-stuck-timeout", "the large response did not finish within %v after its client resumed reading", 4*w.T)
		w.abort = true
		return
	}
	for _, o := range resA {
		w.settleConn(o)
	}
	w.evaluate(resA)
}

func needsRetry(v kit.Verdict) bool {
	for _, f := range v {
		if strings.Contains(f.Sig, "timeout") || strings.Contains(f.Sig, "too-fast") || strings.Contains(f.Sig, "held-up") {
			return true
		}
	}
	return false
}

func runNamed(name string) func(c Case) kit.Verdict {
	return func(c Case) kit.Verdict {
		v := runOnce(c, kit.T())
		if needsRetry(v) && !kit.Shrinking() {
			v2 := runOnce(c, 3*kit.T())
			if len(v2) == 0 {
				kit.Inconclusive(name)
				for _, f := range v {
					kit.Note(name, "did not reproduce with the long bound: "+f.Sig)
				}
				return nil
			}
			return v2
		}
		return v
	}
}

var _ = io.EOF
