package c18

import (
	"fmt"
	"sort"
	"testing"
	"time"

	"pgregory.net/rapid"

	"verifharness/internal/kit"
)

func TestMain(m *testing.M) { kit.Main(m, "C18") }

// ---------------------------------------------------------------- generators

func pick[T any](t *rapid.T, label string, xs ...T) T { return rapid.SampledFrom(xs).Draw(t, label) }

func genOffset(t *rapid.T, label string, scale int) int64 {
	// rapid favours small values: draw from the upper part of the range on purpose now and then
	switch rapid.IntRange(0, 5).Draw(t, label+"_kind") {
	case 3:
		return int64(pick(t, label, 0, 1, 2, scale/2, scale))
	case 4, 5:
		return int64(scale/8 + rapid.IntRange(0, scale-scale/8).Draw(t, label))
	}
	return int64(rapid.IntRange(0, scale).Draw(t, label))
}

const bigBW = 8 << 20 // bandwidths that never make a case wait

func genShape(t *rapid.T, pat, scale int, counted bool) Shape {
	s := Shape{Pat: pat, Var: rapid.IntRange(0, 2).Draw(t, "var"), MaxBW: pick(t, "maxbw", int64(0), 0, 2*bigBW)}
	nh := rapid.IntRange(0, 2).Draw(t, "halts")
	for i := 0; i < nh; i++ {
		s.Halts = append(s.Halts, Halt{At: genOffset(t, "halt_at", scale), Dur: pick(t, "halt_ms", int64(0), 0, 1, 2, 5, 20, 60), N: pick(t, "halt_n", int64(1), 1, 2, -1, 3)})
	}
	nc := rapid.IntRange(0, 2).Draw(t, "closes")
	if counted && nc == 0 {
		nc = 1
	}
	seen := map[int64]bool{}
	for i := 0; i < nc; i++ {
		at := genOffset(t, "close_at", scale)
		if seen[at] {
			continue
		}
		seen[at] = true
		s.Closes = append(s.Closes, CloseAct{At: at, N: pick(t, "close_n", int64(1), 1, 2, -1)})
	}
	nt := rapid.IntRange(0, 2).Draw(t, "throttles")
	if nt > 0 {
		var pts []int
		for len(pts) < 2*nt {
			p := rapid.IntRange(0, 2*scale+4).Draw(t, "thr_pt")
			dup := false
			for _, q := range pts {
				dup = dup || q == p
			}
			if !dup {
				pts = append(pts, p)
			}
		}
		sort.Ints(pts)
		if nt == 2 && rapid.IntRange(0, 3).Draw(t, "thr_adjacent") == 0 {
			pts[2] = pts[1]
		}
		for i := 0; i < nt; i++ {
			a, b := fmt.Sprint(pts[2*i]), fmt.Sprint(pts[2*i+1])
			if i == 0 && pts[0] == 0 && rapid.Bool().Draw(t, "thr_from_start") {
				a = ""
			}
			if i == nt-1 && rapid.IntRange(0, 2).Draw(t, "thr_open") == 0 {
				b = ""
			}
			s.Throttles = append(s.Throttles, Throttle{Bytes: a + "-" + b, BW: pick(t, "thr_bw", int64(bigBW), 8*bigBW)})
		}
		if nt == 2 && rapid.Bool().Draw(t, "thr_swap") {
			s.Throttles[0], s.Throttles[1] = s.Throttles[1], s.Throttles[0]
		}
	}
	return s
}

func genConfig(t *rapid.T, scale int, counted bool) Config {
	c := Config{
		Up:      pick(t, "up", int64(0), 0, bigBW, 1<<30),
		Down:    pick(t, "down", int64(0), 0, bigBW, 1<<30),
		Latency: pick(t, "latency", int64(0), 0, 0, 1, 5, 20, 40),
	}
	n := rapid.IntRange(1, 3).Draw(t, "shapes")
	if !counted && rapid.IntRange(0, 9).Draw(t, "no_shapes") == 0 {
		n = 0 // '{"trafficshape":{}}': clears every shape
	}
	pats := rapid.Permutation([]int{0, 1, 2, 3}).Draw(t, "pats")
	for i := 0; i < n; i++ {
		c.Shapes = append(c.Shapes, genShape(t, pats[i], scale, counted))
	}
	return c
}

var invalidKinds = []string{
	"neg-up", "neg-down", "neg-latency", "empty-regex", "bad-regex", "neg-maxbw",
	"thr-zero-bw", "thr-neg-bw", "thr-overlap", "thr-open-not-last", "thr-equal", "thr-reversed", "thr-malformed",
	"halt-neg-dur", "halt-neg-byte", "halt-zero-count", "close-neg-byte", "close-zero-count", "halt-neg-count", "close-neg-count",
	"bad-json", "no-trafficshape", "null-document", "null-trafficshape", "array-document", "empty-body", "null-shape", "null-throttle", "null-halt", "null-close", "string-for-number",
}

// invalidate plants one defect into a valid configuration; whether the result
// is invalid is decided by Config.Valid, not by this function.
func invalidate(t *rapid.T, c Config) (Config, string) {
	kind := rapid.SampledFrom(invalidKinds).Draw(t, "invalid_kind")
	out := c
	out.Shapes = append([]Shape(nil), c.Shapes...)
	if len(out.Shapes) == 0 {
		out.Shapes = []Shape{{Pat: 0}}
	}
	si := rapid.IntRange(0, len(out.Shapes)-1).Draw(t, "invalid_shape")
	s := out.Shapes[si]
	s.Throttles = append([]Throttle(nil), s.Throttles...)
	s.Halts = append([]Halt(nil), s.Halts...)
	s.Closes = append([]CloseAct(nil), s.Closes...)
	str := func(x string) *string { return &x }
	switch kind {
	case "neg-up":
		out.Up = -1
	case "neg-down":
		out.Down = -pick(t, "neg", int64(1), 1<<40)
	case "neg-latency":
		out.Latency = -1
	case "empty-regex":
		s.Regex = str("")
	case "bad-regex":
		s.Regex = str(pick(t, "bad_regex", "(", "[a-", "/p0/(", "*", "a{2,1}", `\`))
	case "neg-maxbw":
		s.MaxBW = -1
	case "thr-zero-bw":
		s.Throttles = append(s.Throttles, Throttle{Bytes: "900000-900010", BW: 0})
	case "thr-neg-bw":
		s.Throttles = append(s.Throttles, Throttle{Bytes: "900000-900010", BW: -5})
	case "thr-overlap":
		s.Throttles = []Throttle{{"0-100", bigBW}, {pick(t, "overlap", "50-200", "99-100", "0-5", "-300"), bigBW}}
		if rapid.Bool().Draw(t, "swap") {
			s.Throttles[0], s.Throttles[1] = s.Throttles[1], s.Throttles[0]
		}
	case "thr-open-not-last":
		s.Throttles = []Throttle{{pick(t, "open", "0-", "-", "10-"), bigBW}, {"50-200", bigBW}}
	case "thr-equal":
		s.Throttles = append(s.Throttles, Throttle{Bytes: pick(t, "equal", "900007-900007", "-0", "0-0"), BW: bigBW})
	case "thr-reversed":
		s.Throttles = append(s.Throttles, Throttle{Bytes: "900010-900005", BW: bigBW})
	case "thr-malformed":
		s.Throttles = append(s.Throttles, Throttle{Bytes: pick(t, "malformed", "", "5", "5-6-7", "a-b", "5-x", "x-5", " 5-9", "5--9", "5-9 ", "0x10-0x20", "1e3-2e3", "5.0-9"), BW: bigBW})
	case "halt-neg-dur":
		s.Halts = append(s.Halts, Halt{At: 5, Dur: -1, N: 1})
	case "halt-neg-byte":
		s.Halts = append(s.Halts, Halt{At: -1, Dur: 1, N: 1})
	case "halt-zero-count":
		s.Halts = append(s.Halts, Halt{At: 5, Dur: 1, N: 0})
	case "close-neg-byte":
		s.Closes = append(s.Closes, CloseAct{At: -7, N: 1})
	case "close-zero-count":
		s.Closes = append(s.Closes, CloseAct{At: 7, N: 0})
	case "halt-neg-count":
		s.Halts = append(s.Halts, Halt{At: 900005, Dur: 1, N: pick(t, "neg_count", int64(-2), -5, -1<<40)})
	case "close-neg-count":
		s.Closes = append(s.Closes, CloseAct{At: 900007, N: pick(t, "neg_count", int64(-2), -5, -1<<40)})
	default:
		out.Mangle = kind
	}
	out.Shapes[si] = s
	if kind != "neg-up" && kind != "neg-down" && kind != "neg-latency" && rapid.IntRange(0, 2).Draw(t, "other_defaults") > 0 {
		// a rejected document must not leave its default section behind either
		out.Up = pick(t, "bad_up", int64(0), 3*bigBW, 5*bigBW)
		out.Down = pick(t, "bad_down", int64(0), 3*bigBW, 7*bigBW)
		out.Latency = pick(t, "bad_latency", int64(0), 0, 3, 33)
	}
	return out, kind
}

// genResp draws a response for a connection accepted under cfg (nil: none).
// retired: shapes of earlier configurations whose pattern the connection's configuration no
// longer names: a response on such a URL is aimed at their offsets and must be left alone.
func genResp(t *rapid.T, cfg *Config, scale int, e2e bool, retired ...Shape) Resp {
	r := Resp{Seed: rapid.Uint64Range(1, 1<<30).Draw(t, "seed")}
	var shape *Shape
	k := rapid.IntRange(0, 9).Draw(t, "url_kind")
	switch {
	case len(retired) > 0 && k >= 6:
		shape = &retired[rapid.IntRange(0, len(retired)-1).Draw(t, "retired_shape")]
		r.Pat = shape.Pat
	case cfg != nil && len(cfg.Shapes) > 0 && k < 8:
		shape = &cfg.Shapes[rapid.IntRange(0, len(cfg.Shapes)-1).Draw(t, "shape")]
		r.Pat = shape.Pat
	case k == 8:
		r.Pat = -rapid.IntRange(1, 2).Draw(t, "other")
	default:
		r.Pat = rapid.IntRange(0, 3).Draw(t, "pat")
	}
	var offs []int64
	if shape != nil {
		for _, h := range shape.Halts {
			offs = append(offs, h.At)
		}
		for _, c := range shape.Closes {
			offs = append(offs, c.At)
		}
	}
	if len(offs) > 0 && rapid.IntRange(0, 3).Draw(t, "aim") > 0 {
		a := offs[rapid.IntRange(0, len(offs)-1).Draw(t, "aim_at")]
		if e2e && rapid.Bool().Draw(t, "aim_far") {
			// the proxy's first write carries 4 KiB: prefer the action furthest into the body
			for _, o := range offs {
				if o > a {
					a = o
				}
			}
		}
		if rapid.IntRange(0, 2).Draw(t, "aim_range") == 0 && a > 0 {
			r.Start = a - int64(rapid.IntRange(0, int(minI(a, int64(scale)))).Draw(t, "aim_back"))
		}
		r.Body = int(a-r.Start) + rapid.IntRange(0, scale/2+1).Draw(t, "aim_more")
	} else {
		switch rapid.IntRange(0, 9).Draw(t, "start_kind") {
		case 0, 1, 2:
			r.Start = int64(rapid.IntRange(1, scale).Draw(t, "start"))
		case 3:
			r.Start = -1
		}
		r.Body = rapid.IntRange(0, scale).Draw(t, "body")
	}
	if e2e {
		r.Chunked = rapid.IntRange(0, 4).Draw(t, "chunked") == 0
		r.Chunk = pick(t, "chunk", 100, 1000, 4096, 20000)
		if r.Start == 0 {
			r.P206 = rapid.IntRange(0, 4).Draw(t, "p206") == 0
		}
		if r.Start > 0 || r.P206 {
			r.Star = rapid.IntRange(0, 9).Draw(t, "star") == 0
			if r.Body == 0 {
				r.Body = 1
			}
		}
		r.ReqClose = rapid.IntRange(0, 3).Draw(t, "req_close") == 0
		r.OClose = rapid.IntRange(0, 7).Draw(t, "origin_close") == 0
		if rapid.IntRange(0, 7).Draw(t, "odd_content_range") == 0 {
			r.CR = rapid.SampledFrom(oddContentRanges).Draw(t, "cr")
			r.Star, r.P206, r.Start = false, false, 0
		}
		if r.Start >= 0 && rapid.IntRange(0, 5).Draw(t, "other_status") == 0 {
			// statuses other than 206 that carry a Content-Range all the same (416 as
			// http.ServeContent sends it for a range past the end, a 200, a 404): no range start,
			// the shape applies from offset 0. A drawn start > 0 keeps its aim: the body is
			// stretched so that it still runs over the offset it was aimed at.
			st := rapid.SampledFrom([]struct {
				code int
				cr   string
			}{{416, "bytes */5000"}, {416, "bytes */0"}, {200, "bytes 5-9/20"}, {200, "bytes */1000"}, {404, "bytes 0-0/1"}, {203, "bytes 7-8/*"}, {416, ""}}).Draw(t, "status")
			r.Body += int(r.Start)
			r.Status, r.CR, r.Star, r.P206, r.Start = st.code, st.cr, false, false, 0
		}
		return r
	}
	r.Head = pick(t, "head", 20, 21, 60, 60, 200, 300, 4096, 5000)
	n := rapid.IntRange(0, 4).Draw(t, "nsplits")
	min := (r.Head+r.Body)/200 + 1
	for i := 0; i < n; i++ {
		var sz int
		if rapid.Bool().Draw(t, "split_edge") {
			sz = pick(t, "split", 1, 2, 3, 17, 100, 1000, 4096, 65536, r.Head, r.Head+1, r.Head-1)
		} else {
			sz = rapid.IntRange(1, scale+300).Draw(t, "split")
		}
		if sz < min {
			sz = min
		}
		r.Splits = append(r.Splits, sz)
	}
	return r
}

// oddContentRanges: Content-Range values of 206 responses that are not "bytes a-b/n".
var oddContentRanges = []string{
	"bytes */1000", "bytes 5/10", "bytes */*", "<empty>", "<missing>", "bytes=0-5/10", "items 0-5/10", "bytes 0-5",
	"bytes 99999999999999999999-99999999999999999999/99999999999999999999", "bytes 0-99999999999999999999/5",
	"  bytes 3-9/20  ", "BYTES 0-5/10", "Bytes 2-5/10", "bytes", "bytes ", "bytes -", "bytes -/", "bytes -5/10", "bytes 5-/10",
	"bytes 5--6/10", "-", "/", "bytes/", "bytes 1-2/3/4", "bytes\t0-5/10", "bytes 0-5/", "bytes 0 - 5 / 10", "x bytes 3-5/10",
}

// genPendingPair draws two responses for one keep-alive connection: a matching
// one that ends before the first action of its shape (the connection's context
// is left with an action pending), then one whose URL matches no pattern and
// whose body is long enough to run over every offset of that shape.
func genPendingPair(t *rapid.T, cfg *Config, scale int, e2e bool) (first, second Resp, ok bool) {
	if cfg == nil {
		return
	}
	var cands []Shape
	for _, s := range cfg.Shapes {
		lo := int64(-1)
		for _, h := range s.Halts {
			if lo < 0 || h.At < lo {
				lo = h.At
			}
		}
		for _, c := range s.Closes {
			if lo < 0 || c.At < lo {
				lo = c.At
			}
		}
		if lo >= 2 {
			cands = append(cands, s)
		}
	}
	if len(cands) == 0 {
		return
	}
	s := cands[rapid.IntRange(0, len(cands)-1).Draw(t, "pending_shape")]
	lo, hi := int64(1)<<40, int64(0)
	for _, h := range s.Halts {
		lo, hi = minI(lo, h.At), -minI(-hi, -h.At)
	}
	for _, c := range s.Closes {
		lo, hi = minI(lo, c.At), -minI(-hi, -c.At)
	}
	first = genResp(t, cfg, scale, e2e)
	first.Pat, first.Start, first.P206, first.Star, first.Chunked, first.ReqClose = s.Pat, 0, false, false, false, false
	first.Body = rapid.IntRange(1, int(lo)-1).Draw(t, "pending_body")
	second = genResp(t, cfg, scale, e2e)
	second.Pat, second.Start, second.P206, second.Star, second.ReqClose = -1, 0, false, false, false
	second.Body = int(hi) + 64 + rapid.IntRange(0, scale/2+1).Draw(t, "crossing_body")
	return first, second, true
}

// history draws a sequential history.
func genHistory(t *rapid.T, level string, maxSteps int, scales []int) Case {
	scale := rapid.SampledFrom(scales).Draw(t, "scale")
	c := Case{Level: level}
	var active *Config
	connCfg := map[int]*Config{}
	var open []int
	next := 0
	var retired []Shape
	retire := func(old, neu *Config) {
		// patterns the new configuration does not name any more; a pattern named again is back
		var keep []Shape
		for _, sh := range retired {
			named := false
			for _, n := range neu.Shapes {
				named = named || n.Pat == sh.Pat
			}
			if !named {
				keep = append(keep, sh)
			}
		}
		retired = keep
		if old == nil {
			return
		}
		for _, sh := range old.Shapes {
			named := false
			for _, n := range neu.Shapes {
				named = named || n.Pat == sh.Pat
			}
			if !named {
				retired = append(retired, sh)
			}
		}
	}
	post := func(cfg Config) {
		c.Steps = append(c.Steps, Step{Op: "post", Cfg: &cfg})
		if cfg.Valid() {
			retire(active, &cfg)
			active = &cfg
		}
	}
	doOpen := func() {
		faulty := level == "conn" && rapid.IntRange(0, 4).Draw(t, "faulty_close") == 0
		c.Steps = append(c.Steps, Step{Op: "open", Conn: next, Faulty: faulty})
		connCfg[next] = active
		open = append(open, next)
		next++
	}
	if rapid.IntRange(0, 9).Draw(t, "start_unconfigured") != 0 {
		post(genConfig(t, scale, false))
	} else {
		doOpen()
	}
	n := rapid.IntRange(3, maxSteps).Draw(t, "steps")
	resps := 0
	for i := 0; i < n; i++ {
		k := rapid.IntRange(0, 19).Draw(t, "step_kind")
		switch {
		case len(open) == 0 || (k < 3 && next < 3):
			doOpen()
		case k < 13:
			id := open[rapid.IntRange(0, len(open)-1).Draw(t, "conn")]
			if connCfg[id] == active && rapid.IntRange(0, 3).Draw(t, "pending_pair") == 0 {
				if a, b, ok := genPendingPair(t, connCfg[id], scale, level == "e2e"); ok {
					c.Steps = append(c.Steps, Step{Op: "resp", Conn: id, R: &a}, Step{Op: "resp", Conn: id, R: &b})
					resps += 2
					continue
				}
			}
			var gone []Shape
			if connCfg[id] == active {
				gone = retired
			}
			r := genResp(t, connCfg[id], scale, level == "e2e", gone...)
			c.Steps = append(c.Steps, Step{Op: "resp", Conn: id, R: &r})
			resps++
			if r.ReqClose || r.OClose {
				// the proxy closes the connection after this response
				for j := range open {
					if open[j] == id {
						open = append(open[:j], open[j+1:]...)
						break
					}
				}
			}
		case k < 15:
			cfg := genConfig(t, scale, false)
			if active != nil && rapid.Bool().Draw(t, "same_patterns") {
				// the same URL patterns with other actions: what a connection of the
				// previous generation must not be shaped by
				for i := range cfg.Shapes {
					if i < len(active.Shapes) {
						cfg.Shapes[i].Pat, cfg.Shapes[i].Var, cfg.Shapes[i].Regex = active.Shapes[i].Pat, active.Shapes[i].Var, nil
					}
				}
				seen := map[int]bool{}
				kept := cfg.Shapes[:0]
				for _, sh := range cfg.Shapes {
					if !seen[sh.Pat] {
						seen[sh.Pat] = true
						kept = append(kept, sh)
					}
				}
				cfg.Shapes = kept
			}
			if level != "mitm" && next < 5 && rapid.IntRange(0, 2).Draw(t, "slow_upload") == 0 {
				// the document arrives slowly; a connection is accepted meanwhile
				prev := active
				c.Steps = append(c.Steps, Step{Op: "post", Cfg: &cfg, During: []int{next}})
				id := next
				connCfg[id] = prev
				open = append(open, id)
				next++
				if cfg.Valid() {
					retire(active, &cfg)
					active = &cfg
				}
				// aimed at the new configuration's offsets, which must not apply to it
				r := genResp(t, &cfg, scale, level == "e2e")
				r.ReqClose = false
				c.Steps = append(c.Steps, Step{Op: "resp", Conn: id, R: &r})
				resps++
				continue
			}
			post(cfg)
		case k == 15 && active != nil:
			post(*active) // the same document again: new counts, older connections keep out
		case k < 19 && active != nil && len(active.Shapes) > 0:
			bad, _ := invalidate(t, *active)
			post(bad)
		case k < 19:
			bad, _ := invalidate(t, genConfig(t, scale, false))
			post(bad)
		default:
			j := rapid.IntRange(0, len(open)-1).Draw(t, "close")
			c.Steps = append(c.Steps, Step{Op: "close", Conn: open[j], Abort: rapid.Bool().Draw(t, "abort")})
			open = append(open[:j], open[j+1:]...)
		}
	}
	if resps == 0 {
		if len(open) == 0 {
			doOpen()
		}
		r := genResp(t, connCfg[open[0]], scale, level == "e2e")
		c.Steps = append(c.Steps, Step{Op: "resp", Conn: open[0], R: &r})
		if r.ReqClose {
			open = open[1:]
		}
	}
	// endings: a tunnel on a connection that has just served a matching response, or the listener
	// closed (proxy shutdown) while a matching response is being written
	switch ending := rapid.IntRange(0, 7).Draw(t, "ending"); {
	case ending == 0 && level == "e2e" && len(open) > 0:
		id := open[len(open)-1]
		if connCfg[id] == active {
			if a, b, ok := genPendingPair(t, connCfg[id], scale, true); ok {
				// keep the pending offsets clear of the proxy's short answer to CONNECT: an action
				// firing inside it leaves a half-answered CONNECT that only a timeout can tell
				// (same defect as a cut tunnel, twelve seconds dearer)
				if s := buildModel(*connCfg[id], 0).byPat(a.Pat); s != nil && len(s.acts) > 0 && s.acts[0].at-int64(a.Body) > 256 {
					op := pick(t, "takeover", "tunnel", "hijack")
					c.Steps = append(c.Steps, Step{Op: "resp", Conn: id, R: &a}, Step{Op: op, Conn: id, R: &Resp{Body: b.Body, Seed: b.Seed}})
				}
			}
		}
	case ending <= 2 && len(open) > 0:
		id := open[len(open)-1]
		r := genResp(t, connCfg[id], scale, level == "e2e")
		r.LClose, r.ReqClose = true, false
		if level == "conn" && len(r.Splits) == 0 {
			r.Splits = []int{(r.Head+r.Body)/3 + 1}
		}
		c.Steps = append(c.Steps, Step{Op: "resp", Conn: id, R: &r})
		r2 := genResp(t, connCfg[id], scale, level == "e2e")
		c.Steps = append(c.Steps, Step{Op: "resp", Conn: id, R: &r2})
	}
	return c
}

// genParallel draws connections that write concurrently while sharing shapes.
func genParallel(t *rapid.T) Case {
	scale := pick(t, "scale", 64, 1000, 5000)
	c := Case{Level: "conn"}
	cfg := genConfig(t, scale, true)
	c.Steps = append(c.Steps, Step{Op: "post", Cfg: &cfg})
	conns := rapid.IntRange(2, 4).Draw(t, "conns")
	early := rapid.IntRange(0, 4).Draw(t, "one_early") == 0
	for i := 0; i < conns; i++ {
		c.Steps = append(c.Steps, Step{Op: "open", Conn: i})
		if early && i == 0 {
			// connection 0 predates the configuration that follows
			cfg2 := genConfig(t, scale, true)
			c.Steps = append(c.Steps, Step{Op: "post", Cfg: &cfg2})
			cfg = cfg2
		}
	}
	groups := rapid.IntRange(1, 2).Draw(t, "groups")
	for g := 0; g < groups; g++ {
		var lanes []Lane
		for i := 0; i < conns; i++ {
			ln := Lane{Conn: i}
			n := rapid.IntRange(1, 3).Draw(t, "lane_len")
			for j := 0; j < n; j++ {
				ln.Rs = append(ln.Rs, genResp(t, &cfg, scale, false))
			}
			lanes = append(lanes, ln)
		}
		c.Steps = append(c.Steps, Step{Op: "par", Par: lanes})
		if g == 0 && groups == 2 && rapid.IntRange(0, 3).Draw(t, "bad_between") == 0 {
			bad, _ := invalidate(t, cfg)
			c.Steps = append(c.Steps, Step{Op: "post", Cfg: &bad})
		}
	}
	return c
}

// genResources draws histories whose bucket goroutines are accounted for.
func genResources(t *rapid.T) Case {
	scale := pick(t, "scale", 64, 1000)
	c := Case{Level: "conn", Res: true}
	cfg := genConfig(t, scale, false)
	c.Steps = append(c.Steps, Step{Op: "post", Cfg: &cfg})
	next := 0
	flavour := rapid.IntRange(0, 5).Draw(t, "flavour") // 0-2 connections only, 3 rejected, 4 replaced, 5 both
	n := rapid.IntRange(1, 4).Draw(t, "conns")
	for i := 0; i < n; i++ {
		c.Steps = append(c.Steps, Step{Op: "open", Conn: next, Faulty: rapid.IntRange(0, 2).Draw(t, "faulty_close") == 0})
		if rapid.Bool().Draw(t, "use") {
			r := genResp(t, &cfg, scale, false)
			c.Steps = append(c.Steps, Step{Op: "resp", Conn: next, R: &r})
		}
		if rapid.IntRange(0, 3).Draw(t, "close_now") == 0 {
			c.Steps = append(c.Steps, Step{Op: "close", Conn: next, Abort: rapid.Bool().Draw(t, "abort")})
		}
		next++
		if i == 0 && (flavour == 3 || flavour == 5) {
			bad, _ := invalidate(t, cfg)
			c.Steps = append(c.Steps, Step{Op: "post", Cfg: &bad})
		}
		if i == 0 && flavour >= 4 {
			cfg = genConfig(t, scale, false)
			c.Steps = append(c.Steps, Step{Op: "post", Cfg: &cfg})
		}
	}
	return c
}

// ---------------------------------------------------------------- static analysis of a case (classes, non-trivial rule)

func analyze(c Case) map[string]bool {
	cl := map[string]bool{}
	var active *cfgM
	epoch := 0
	conns := map[int]*cfgM{}
	everNamed := map[int]bool{}
	pending := map[int]bool{} // connection -> its last response left an action of its shape pending
	look := func(id int, r Resp, par bool) {
		cfg, ok := conns[id]
		if !ok {
			return
		}
		was := pending[id]
		pending[id] = false
		if s := cfg.byPat(r.Pat); r.Pat >= 0 && s != nil && cfg == active && r.Start >= 0 && !r.Chunked && !r.ReqClose {
			for _, a := range s.acts {
				if a.at-r.Start > int64(r.Body) {
					pending[id] = true
				}
				if a.kind == 'c' && a.at >= r.Start && a.at-r.Start <= int64(r.Body) {
					pending[id] = false // may be cut: the connection is gone
					break
				}
			}
		} else if was && (r.Pat < 0 || cfg.byPat(r.Pat) == nil) && r.Body > 0 {
			cl["non-matching-after-pending-action"] = true
		}
		if r.ReqClose && r.Pat >= 0 && cfg.byPat(r.Pat) != nil && cfg == active {
			cl["matching-request-asks-close"] = true
		}
		if r.CR != "" {
			cl["odd-content-range"] = true
		}
		if r.Status != 0 && r.Status != 206 && r.Pat >= 0 && cfg.byPat(r.Pat) != nil && cfg == active {
			cl["matching-other-status-with-content-range"] = true
		}
		if r.Pat >= 0 && cfg == active && cfg.byPat(r.Pat) == nil && everNamed[r.Pat] {
			cl["pattern-no-longer-configured"] = true
		}
		if r.LClose && r.Pat >= 0 && cfg.byPat(r.Pat) != nil && cfg == active && r.Start >= 0 {
			cl["listener-closed-during-matching-response"] = true
		}
		if r.Pat < 0 || cfg.byPat(r.Pat) == nil {
			cl["non-matching-response"] = true
			return
		}
		if cfg != active {
			cl["response-on-stale-connection"] = true
			return
		}
		if r.Start < 0 {
			cl["no-range-start"] = true
			return
		}
		if r.Start > 0 {
			cl["range-start>0"] = true
		}
		if r.Chunked {
			cl["chunked-matching"] = true
			return
		}
		s := cfg.byPat(r.Pat)
		head := r.Head
		if head < 20 {
			head = 20
		}
		if c.Level != "conn" {
			head = 120
		}
		for _, a := range s.acts {
			off := a.at - r.Start
			if off < 0 || off >= int64(r.Body) {
				continue
			}
			cl["crosses-action"] = true
			if a.kind == 'c' {
				cl["crosses-close"] = true
			} else if a.dur > 0 {
				cl["crosses-halt"] = true
			}
			if c.Level != "conn" {
				if int64(head)+off > 4096 {
					cl["action-beyond-first-buffer"] = true
				}
				continue
			}
			// is the absolute position strictly inside one write?
			abs := int64(head) + off
			pos, k := int64(0), 0
			inside := len(r.Splits) == 0 && abs > 0
			for len(r.Splits) > 0 && pos < int64(head+r.Body) {
				n := int64(r.Splits[k%len(r.Splits)])
				k++
				if abs > pos && abs < pos+n {
					inside = true
				}
				if abs <= pos {
					break
				}
				pos += n
			}
			if inside {
				cl["action-inside-write"] = true
			}
			if par && a.lo < inf {
				cl["concurrent-counted-action"] = true
			}
		}
	}
	for _, st := range c.Steps {
		switch st.Op {
		case "tunnel", "hijack":
			if pending[st.Conn] {
				cl[st.Op+"-after-pending-action"] = true
			}
		case "post":
			if st.Cfg == nil {
				continue
			}
			for _, id := range st.During {
				if _, dup := conns[id]; !dup {
					conns[id] = active
					cl["connection-accepted-during-upload"] = true
				}
			}
			if st.Cfg.Valid() {
				for _, sh := range st.Cfg.Shapes {
					everNamed[sh.Pat] = true
				}
				epoch++
				if active != nil {
					cl["config-replaced"] = true
				}
				active = buildModel(*st.Cfg, epoch)
			} else {
				cl["rejected-config"] = true
				if active != nil {
					cl["rejected-config-while-shaping"] = true
				}
			}
		case "open":
			if _, dup := conns[st.Conn]; !dup {
				conns[st.Conn] = active
				if st.Faulty && c.Level == "conn" {
					cl["wrapped-close-reports-error"] = true
				}
			}
		case "close":
			if st.Abort {
				cl["client-reset"] = true
			}
		case "resp":
			if st.R != nil {
				look(st.Conn, *st.R, false)
			}
		case "par":
			n := 0
			for _, ln := range st.Par {
				if len(ln.Rs) > 0 {
					n++
				}
			}
			for _, ln := range st.Par {
				for _, r := range ln.Rs {
					look(ln.Conn, r, n >= 2)
				}
			}
		}
	}
	return cl
}

func nontrivial(c Case) bool {
	cl := analyze(c)
	return cl["action-inside-write"] || cl["range-start>0"] || cl["concurrent-counted-action"] || cl["rejected-config"] || (c.Level != "conn" && cl["crosses-action"])
}

func classes(c Case) []string {
	var out []string
	for k := range analyze(c) {
		out = append(out, k)
	}
	sort.Strings(out)
	return out
}

// ---------------------------------------------------------------- properties

const rule = "histories against one shaped listener: configuration POSTs through the real handler (valid; or one planted defect: negative value, zero count, empty/invalid pattern, malformed/empty/reversed/overlapping/misplaced open-ended throttle, non-positive bandwidth, damaged JSON), connections, responses (URL matching a pattern or none, range start 0 / >0 / unusable, drawn sizes, aimed at the shape's action offsets half of the time), connection closes; the client's bytes are compared with the written bytes, cuts with the close actions and their counts, durations with the halts crossed (lower bounds), POST answers with a reference validity decision; non-trivial = an action offset strictly inside a write, a range start > 0, >= 2 concurrent connections sharing a counted action, or a rejected configuration"

var propConn = &kit.Prop[Case]{
	ID: "C18", Name: "conn", Journal: true,
	Rule: "conn level (the harness plays proxy.go: context from shape, range start and head length; head and body split over drawn write sizes); " + rule,
	Gen:  func(t *rapid.T) Case { return genHistory(t, "conn", 12, []int{64, 1000, 1000, 5000, 70000}) },
	Run:  runNamed("conn"), NonTrivial: nontrivial, Classes: classes,
	Gates: map[string]float64{"action-inside-write": 0.15, "range-start>0": 0.10, "rejected-config": 0.15, "crosses-close": 0.10, "non-matching-response": 0.10, "response-on-stale-connection": 0.03},
}

var propParallel = &kit.Prop[Case]{
	ID: "C18", Name: "parallel", Journal: true,
	Rule: "conn level, 2..4 connections writing 1..3 responses each concurrently against shapes with counted actions (one connection may predate the configuration); per action the number of cuts must equal min(count, responses that reached it); " + rule,
	Gen:  genParallel,
	Run:  runNamed("parallel"), NonTrivial: nontrivial, Classes: classes,
	Gates: map[string]float64{"concurrent-counted-action": 0.3},
}

var propE2E = &kit.Prop[Case]{
	ID: "C18", Name: "e2e", Journal: true,
	Rule: "end to end: martian.Proxy served on the shaped listener, scripted raw origin answering 200 or 206 with Content-Range (total known or '*'; multipart), Content-Length or chunked, raw client; " + rule,
	Gen:  func(t *rapid.T) Case { return genHistory(t, "e2e", 9, []int{1000, 20000, 40000, 70000}) },
	Run:  runNamed("e2e"), NonTrivial: nontrivial, Classes: classes,
	Gates: map[string]float64{"crosses-action": 0.25, "action-beyond-first-buffer": 0.04, "non-matching-response": 0.08},
}

var propResources = &kit.Prop[Case]{
	ID: "C18", Name: "resources", Journal: true,
	Rule: "conn level histories (1..4 connections, optional rejected and replacing POSTs); after every shaped connection is closed the per-connection buckets and the buckets of replaced configurations must be closed and the number of trafficshape.(*Bucket).loop goroutines must return to baseline + listener (2) + active shapes; non-trivial = every case",
	Gen:  genResources,
	Run:  runNamed("resources"), Classes: classes,
}

var propFixed = &kit.Prop[Case]{
	ID: "C18", Name: "fixed-matrix", Journal: true,
	Rule: "fixed matrix: end to end {Content-Length, chunked} x action offset {inside, beyond the proxy's first 4 KiB write} x {close, halt}, range start 0 and > 0, total '*'; conn level throttle of B bytes/s over n bytes takes at least ceil(n/B)-2 s",
	Run:  runNamed("fixed-matrix"), NonTrivial: nontrivial, Classes: classes,
}

func fixedCases() []Case {
	var out []Case
	one := func(level string, s Shape, rs ...Resp) Case {
		cfg := Config{Shapes: []Shape{s}}
		c := Case{Level: level, Steps: []Step{{Op: "post", Cfg: &cfg}, {Op: "open", Conn: 0}}}
		conn := 0
		for i := range rs {
			c.Steps = append(c.Steps, Step{Op: "resp", Conn: conn, R: &rs[i]})
			// a cut closes the connection: continue on a new one
			conn++
			c.Steps = append(c.Steps, Step{Op: "open", Conn: conn})
		}
		return c
	}
	for _, chunked := range []bool{false, true} {
		for _, at := range []int64{1500, 9000, 40000} {
			for _, start := range []int64{0, 700} {
				// close with count 1: a non-matching response passes it, the next matching one is cut, a third is not
				out = append(out, one("e2e", Shape{Pat: 1, Closes: []CloseAct{{At: at, N: 1}}},
					Resp{Pat: -1, Start: start, Body: 50000, Seed: 1, Chunked: chunked},
					Resp{Pat: 1, Start: start, Body: 50000, Seed: 2, Chunked: chunked},
					Resp{Pat: 1, Start: start, Body: 50000, Seed: 3, Chunked: chunked}))
				// halt with count 1
				out = append(out, one("e2e", Shape{Pat: 2, Var: 1, Halts: []Halt{{At: at, Dur: 60, N: 1}}},
					Resp{Pat: -2, Start: start, Body: 50000, Seed: 4, Chunked: chunked},
					Resp{Pat: 2, Start: start, Body: 50000, Seed: 5, Chunked: chunked},
					Resp{Pat: 2, Start: start, Body: 50000, Seed: 6, Chunked: chunked}))
			}
		}
	}
	// the client asks for Connection: close and the origin's answer does not carry it: the proxy adds
	// the line itself, and the head length it tells the shaped connection must include it
	for _, at := range []int64{200, 9000} {
		out = append(out, one("e2e", Shape{Pat: 1, Var: 1, Closes: []CloseAct{{At: at, N: -1}}, Halts: []Halt{{At: at - 50, Dur: 20, N: -1}}},
			Resp{Pat: 1, Body: 12000, Seed: 30, ReqClose: true},
			Resp{Pat: 1, Start: 150, Body: 12000, Seed: 31, ReqClose: true},
			Resp{Pat: -1, Body: 12000, Seed: 32, ReqClose: true}))
	}
	// state carried between exchanges on one keep-alive connection: a matching response that ends
	// before the shape's halt (700) and close (1000), then a response on a URL matching no pattern
	// that runs over both offsets - complete and uncut - then a matching one that still finds both
	for _, level := range []string{"e2e", "mitm"} {
		pend := Config{Shapes: []Shape{{Pat: 1, Var: 1, Halts: []Halt{{At: 700, Dur: 40, N: 1}}, Closes: []CloseAct{{At: 1000, N: 1}}}}}
		out = append(out, Case{Level: level, Steps: []Step{
			{Op: "post", Cfg: &pend}, {Op: "open", Conn: 0},
			{Op: "resp", Conn: 0, R: &Resp{Pat: 1, Body: 500, Seed: 40}},
			{Op: "resp", Conn: 0, R: &Resp{Pat: -1, Body: 3000, Seed: 41}},
			{Op: "resp", Conn: 0, R: &Resp{Pat: 1, Body: 300, Seed: 42}},
			{Op: "resp", Conn: 0, R: &Resp{Pat: -2, Body: 9000, Seed: 43, Chunked: true}},
			{Op: "resp", Conn: 0, R: &Resp{Pat: 1, Body: 2000, Seed: 44}},
		}})
	}
	for _, level := range []string{"conn", "e2e"} {
		// a configuration whose document is still uploading when a connection is accepted does not
		// apply to that connection (same pattern in both, the new one closes at 300)
		old := Config{Shapes: []Shape{{Pat: 1, Var: 1, Closes: []CloseAct{{At: 2000, N: -1}}}}}
		neu := Config{Shapes: []Shape{{Pat: 1, Var: 1, Closes: []CloseAct{{At: 300, N: -1}}}}}
		out = append(out, Case{Level: level, Steps: []Step{
			{Op: "post", Cfg: &old}, {Op: "open", Conn: 0}, {Op: "post", Cfg: &neu, During: []int{1}},
			{Op: "resp", Conn: 1, R: &Resp{Pat: 1, Body: 1000, Head: 60, Seed: 60, Splits: []int{256}}},
			{Op: "resp", Conn: 0, R: &Resp{Pat: 1, Body: 1000, Head: 60, Seed: 61}},
			{Op: "open", Conn: 2}, {Op: "resp", Conn: 2, R: &Resp{Pat: 1, Body: 1000, Head: 60, Seed: 62}},
		}})
		// the listener is closed (proxy shutdown) while a halted, globally limited matching response
		// has writes ahead: it arrives as the model says, and so does the next one on that connection
		lc := Config{Shapes: []Shape{{Pat: 1, Var: 1, MaxBW: 2 * bigBW, Halts: []Halt{{At: 200, Dur: 60, N: -1}}, Closes: []CloseAct{{At: 2500, N: 1}}}}}
		out = append(out, Case{Level: level, Steps: []Step{
			{Op: "post", Cfg: &lc}, {Op: "open", Conn: 0}, {Op: "open", Conn: 1},
			{Op: "resp", Conn: 0, R: &Resp{Pat: 1, Body: 2000, Head: 50, Seed: 63, Splits: []int{150}, LClose: true}},
			{Op: "resp", Conn: 0, R: &Resp{Pat: 1, Body: 500, Head: 50, Seed: 64}},
			{Op: "resp", Conn: 1, R: &Resp{Pat: 1, Body: 3000, Head: 50, Seed: 65, Splits: []int{1000}}},
		}})
	}
	// a configuration replaces the previous one, it is not merged into it: patterns it does not name,
	// and everything after the empty configuration, are unshaped on connections accepted afterwards
	for _, level := range []string{"conn", "e2e"} {
		a := Config{Shapes: []Shape{{Pat: 1, Var: 1, Closes: []CloseAct{{At: 300, N: -1}}}, {Pat: 2, Closes: []CloseAct{{At: 100, N: -1}}}}}
		b := Config{Shapes: []Shape{{Pat: 2, Closes: []CloseAct{{At: 400, N: -1}}}}}
		none := Config{}
		out = append(out, Case{Level: level, Steps: []Step{
			{Op: "post", Cfg: &a}, {Op: "open", Conn: 0}, {Op: "post", Cfg: &b}, {Op: "open", Conn: 1},
			{Op: "resp", Conn: 1, R: &Resp{Pat: 1, Body: 1000, Head: 60, Seed: 70}},
			{Op: "resp", Conn: 1, R: &Resp{Pat: 2, Body: 1000, Head: 60, Seed: 71}},
			{Op: "post", Cfg: &none}, {Op: "open", Conn: 2},
			{Op: "resp", Conn: 2, R: &Resp{Pat: 2, Body: 1000, Head: 60, Seed: 72}},
			{Op: "resp", Conn: 2, R: &Resp{Pat: 1, Body: 1000, Head: 60, Seed: 73}},
		}})
	}
	// 206 answers whose Content-Range is not "bytes a-b/n" on a URL with a close action at 10: the
	// proxy survives them; those without any readable first-byte position arrive complete
	odd := Config{Shapes: []Shape{{Pat: 1, Var: 1, Closes: []CloseAct{{At: 10, N: -1}}}}}
	oc := Case{Level: "e2e", Steps: []Step{{Op: "post", Cfg: &odd}}}
	for i, cr := range oddContentRanges {
		oc.Steps = append(oc.Steps, Step{Op: "open", Conn: i}, Step{Op: "resp", Conn: i, R: &Resp{Pat: 1, Body: 200, Seed: uint64(100 + i), CR: cr}})
	}
	out = append(out, oc)
	// a request modifier hijacks the session on a connection that has just served a matching response
	// with actions still ahead (and, as a control, on a fresh connection)
	hj := Config{Shapes: []Shape{{Pat: 1, Var: 1, Closes: []CloseAct{{At: 5000, N: -1}}, Halts: []Halt{{At: 3000, Dur: 30, N: -1}}}}}
	for _, level := range []string{"e2e", "mitm"} {
		out = append(out, Case{Level: level, Steps: []Step{
			{Op: "post", Cfg: &hj}, {Op: "open", Conn: 0}, {Op: "open", Conn: 1},
			{Op: "hijack", Conn: 1, R: &Resp{Body: 20000, Seed: 74}},
			{Op: "resp", Conn: 0, R: &Resp{Pat: 1, Body: 500, Seed: 75}},
			{Op: "hijack", Conn: 0, R: &Resp{Body: 20000, Seed: 76}},
		}})
	}
	// head accounting when the origin itself marks the response "Connection: close" (also together with
	// the client asking for it, and with an empty body)
	ocl := Config{Shapes: []Shape{{Pat: 1, Var: 1, Closes: []CloseAct{{At: 200, N: -1}}}}}
	out = append(out, Case{Level: "e2e", Steps: []Step{
		{Op: "post", Cfg: &ocl}, {Op: "open", Conn: 0}, {Op: "open", Conn: 1}, {Op: "open", Conn: 2},
		{Op: "resp", Conn: 0, R: &Resp{Pat: 1, Body: 500, Seed: 77, OClose: true}},
		{Op: "resp", Conn: 1, R: &Resp{Pat: 1, Body: 500, Seed: 78, OClose: true, ReqClose: true}},
		{Op: "resp", Conn: 2, R: &Resp{Pat: 1, Body: 0, Seed: 79, OClose: true}},
	}})
	// only a 206 has a range start: a 416 with "bytes */N", a 200 or a 404 carrying a Content-Range are
	// shaped from offset 0 (halt, then the counted close, which the next response no longer finds)
	os := Config{Shapes: []Shape{{Pat: 1, Var: 1, Halts: []Halt{{At: 150, Dur: 30, N: -1}}, Closes: []CloseAct{{At: 200, N: 2}}}}}
	out = append(out, Case{Level: "e2e", Steps: []Step{
		{Op: "post", Cfg: &os}, {Op: "open", Conn: 0}, {Op: "open", Conn: 1}, {Op: "open", Conn: 2}, {Op: "open", Conn: 3},
		{Op: "resp", Conn: 0, R: &Resp{Pat: 1, Body: 1000, Seed: 86, Status: 416, CR: "bytes */5000"}},
		{Op: "resp", Conn: 1, R: &Resp{Pat: 1, Body: 6000, Seed: 87, Status: 200, CR: "bytes 500-999/6000"}},
		{Op: "resp", Conn: 2, R: &Resp{Pat: 1, Body: 1000, Seed: 88, Status: 404, CR: "bytes */0"}},
		{Op: "resp", Conn: 3, R: &Resp{Pat: -1, Body: 1000, Seed: 89, Status: 416, CR: "bytes */5000"}},
	}})
	// documents that are JSON but no configuration are answered 400 and change nothing
	keep := Config{Latency: 3, Shapes: []Shape{{Pat: 1, Var: 1, Closes: []CloseAct{{At: 100, N: -1}}}}}
	nd := Case{Level: "conn", Steps: []Step{{Op: "post", Cfg: &keep}}}
	for _, m := range []string{"null-document", "null-trafficshape", "array-document", "empty-body"} {
		bad := keep
		bad.Mangle = m
		nd.Steps = append(nd.Steps, Step{Op: "post", Cfg: &bad})
	}
	nd.Steps = append(nd.Steps, Step{Op: "open", Conn: 0}, Step{Op: "resp", Conn: 0, R: &Resp{Pat: 1, Body: 500, Head: 40, Seed: 84}})
	out = append(out, nd)
	// a chunked matching response is cut after exactly the body bytes in front of the close offset
	out = append(out, one("e2e", Shape{Pat: 1, Var: 1, Closes: []CloseAct{{At: 100, N: -1}}},
		Resp{Pat: 1, Body: 1000, Seed: 85, Chunked: true, Chunk: 1000}))
	// a CONNECT on a connection that has just served a matching response with actions still ahead:
	// the tunnel's bytes match no shape; and the control: a tunnel on a fresh connection
	tun := Config{Shapes: []Shape{{Pat: 1, Var: 1, Closes: []CloseAct{{At: 5000, N: -1}}, Halts: []Halt{{At: 3000, Dur: 30, N: -1}}}}}
	out = append(out, Case{Level: "e2e", Steps: []Step{
		{Op: "post", Cfg: &tun}, {Op: "open", Conn: 0}, {Op: "open", Conn: 1},
		{Op: "tunnel", Conn: 1, R: &Resp{Body: 20000, Seed: 66}},
		{Op: "resp", Conn: 0, R: &Resp{Pat: 1, Body: 500, Seed: 67}},
		{Op: "tunnel", Conn: 0, R: &Resp{Body: 20000, Seed: 68}},
	}})
	out = append(out, one("e2e", Shape{Pat: 0, Var: 2, Closes: []CloseAct{{At: 900, N: -1}}},
		Resp{Pat: 0, Start: 500, Body: 3000, Seed: 7, Star: true},
		Resp{Pat: 0, Start: 0, P206: true, Body: 3000, Seed: 8, Star: true}))
	// throttles: 1500 B/s over 4501 bytes -> 4 chunks -> at least 2 s
	thr := Shape{Pat: 3, Throttles: []Throttle{{Bytes: "2000-6501", BW: 1500}}, Halts: []Halt{{At: 7000, Dur: 30, N: -1}}}
	// quick: 1500 B/s over 3001 bytes -> 3 chunks -> at least 1 s, entered through the throttle's start action
	thr3 := Shape{Pat: 3, Throttles: []Throttle{{Bytes: "2000-5001", BW: 1500}}, Halts: []Halt{{At: 7000, Dur: 30, N: -1}}}
	_ = thr3
	// end to end, open-ended throttle entered at 2000 (inside the proxy's first 4 KiB write), no action
	// after it: 3000 B/s over offsets 2000..8001 -> 3 chunks -> at least 1 s; most of it is body the
	// proxy hands to ReadFrom
	out = append(out, one("e2e", Shape{Pat: 3, Var: 1, Throttles: []Throttle{{Bytes: "2000-", BW: 3000}}}, Resp{Pat: 3, Body: 8001, Seed: 9}))
	// a halt of 1.5 s with count 1 on connection 0; meanwhile two short responses of the same shape on
	// connection 1 and a configuration POST: none of them waits for that halt
	dh := Config{Shapes: []Shape{{Pat: 1, Var: 1, Halts: []Halt{{At: 100, Dur: 1500, N: 1}}}}}
	out = append(out, Case{Level: "conn", Steps: []Step{
		{Op: "post", Cfg: &dh}, {Op: "open", Conn: 0}, {Op: "open", Conn: 1},
		{Op: "during-halt", Conn: 0, R: &Resp{Pat: 1, Body: 1000, Head: 50, Seed: 80, Splits: []int{4000}}, Cfg: &dh,
			Par: []Lane{{Conn: 1, Rs: []Resp{{Pat: 1, Body: 50, Head: 50, Seed: 81}, {Pat: -1, Body: 500, Head: 50, Seed: 82}}}}},
		{Op: "resp", Conn: 1, R: &Resp{Pat: 1, Body: 50, Head: 50, Seed: 83}},
	}})
	// throttles listed in descending order, range start strictly inside the one listed last:
	// 1000 B/s over offsets 2000..4001 -> 3 chunks -> at least 1 s
	unsorted := Shape{Pat: 3, Var: 1, Throttles: []Throttle{{Bytes: "9000-", BW: bigBW}, {Bytes: "5000-9000", BW: 2 * bigBW}, {Bytes: "1000-4001", BW: 1000}}}
	out = append(out, one("conn", unsorted, Resp{Pat: 3, Start: 2000, Body: 6000, Head: 90, Seed: 16, Splits: []int{1500}}))
	// a rejected document (shape validation) with another default section: the listener keeps its
	// defaults, a connection accepted afterwards still owes the accepted configuration's latency
	for _, level := range []string{"conn", "e2e"} {
		good := Config{Up: 3 * bigBW, Down: 5 * bigBW, Latency: 40, Shapes: []Shape{{Pat: 0, Closes: []CloseAct{{At: 300, N: -1}}}}}
		bad1 := Config{Latency: 0, Shapes: []Shape{{Pat: 0, Closes: []CloseAct{{At: 300, N: 0}}}}}
		bad2 := Config{Up: bigBW, Down: bigBW, Latency: 5, Shapes: []Shape{{Pat: 0}, {Pat: 1, Throttles: []Throttle{{Bytes: "0-10", BW: bigBW}, {Bytes: "5-20", BW: bigBW}}}}}
		out = append(out, Case{Level: level, Steps: []Step{
			{Op: "post", Cfg: &good}, {Op: "open", Conn: 0}, {Op: "post", Cfg: &bad1}, {Op: "open", Conn: 1},
			{Op: "resp", Conn: 1, R: &Resp{Pat: -1, Body: 100, Head: 50, Seed: 50}}, {Op: "post", Cfg: &bad2}, {Op: "open", Conn: 2},
			{Op: "resp", Conn: 2, R: &Resp{Pat: 0, Body: 1000, Head: 50, Seed: 51}}, {Op: "resp", Conn: 0, R: &Resp{Pat: 0, Body: 1000, Head: 50, Seed: 52}},
		}})
	}
	// three connections share the shape's global bucket of 1500 B/s: the second or third finds less
	// room in it than in its own bucket
	shared := Config{Shapes: []Shape{{Pat: 0, MaxBW: 1500}}} // no actions: the shape locks stay out of it
	sc := Case{Level: "conn", Steps: []Step{{Op: "post", Cfg: &shared}, {Op: "open", Conn: 0}, {Op: "open", Conn: 1}, {Op: "open", Conn: 2}}}
	var lanes []Lane
	for i := 0; i < 3; i++ {
		lanes = append(lanes, Lane{Conn: i, Rs: []Resp{{Pat: 0, Body: 1000, Head: 50, Seed: uint64(20 + i), Splits: []int{400}}}})
	}
	sc.Steps = append(sc.Steps, Step{Op: "par", Par: lanes})
	out = append(out, sc)
	if kit.Thorough() {
		// a client that stops reading a 24 MiB response must not hold up responses on other
		// connections, of another shape and of the same shape
		sp := Config{Shapes: []Shape{{Pat: 1, Var: 1}, {Pat: 2, Var: 1}}}
		out = append(out, Case{Level: "conn", Steps: []Step{
			{Op: "post", Cfg: &sp}, {Op: "open", Conn: 0}, {Op: "open", Conn: 1},
			{Op: "stalled-peer", Conn: 0, R: &Resp{Pat: 1, Body: 24 << 20, Head: 50, Seed: 90},
				Par: []Lane{{Conn: 1, Rs: []Resp{{Pat: -1, Body: 500, Head: 50, Seed: 91}, {Pat: 2, Body: 500, Head: 50, Seed: 92}, {Pat: 1, Body: 500, Head: 50, Seed: 93}}}}},
		}})
		out = append(out,
			one("conn", thr, Resp{Pat: 3, Body: 8000, Head: 100, Seed: 9, Splits: []int{3000, 777}}),
			one("conn", thr3, Resp{Pat: 3, Body: 8000, Head: 100, Seed: 9, Splits: []int{3000, 777}}),
			one("e2e", Shape{Pat: 3, Var: 1, Throttles: []Throttle{{Bytes: "0-", BW: 4000}}}, Resp{Pat: 3, Body: 12001, Seed: 18}),
			one("e2e", unsorted, Resp{Pat: 3, Start: 2000, Body: 6000, Seed: 17}),
			one("conn", thr, Resp{Pat: 3, Start: 3000, Body: 5000, Head: 64, Seed: 10, Splits: []int{1}}),
			one("conn", Shape{Pat: 3, Throttles: []Throttle{{Bytes: "-4001", BW: 1000}, {Bytes: "4001-", BW: 2 * bigBW}}, Closes: []CloseAct{{At: 5000, N: 1}}},
				Resp{Pat: 3, Body: 9000, Head: 300, Seed: 11, Splits: []int{4096}}),
			one("conn", Shape{Pat: 3, Throttles: []Throttle{{Bytes: "100-", BW: 700}}},
				Resp{Pat: 3, Start: 50, Body: 2152, Head: 40, Seed: 12}),
			one("e2e", thr, Resp{Pat: 3, Body: 8000, Seed: 13}),
			one("e2e", thr, Resp{Pat: 3, Start: 1000, Body: 7000, Seed: 14}),
			one("e2e", Shape{Pat: 3, Throttles: []Throttle{{Bytes: "0-", BW: 1000}}}, Resp{Pat: 3, Body: 3001, Seed: 15}),
		)
	}
	return out
}

var propResFixed = &kit.Prop[Case]{
	ID: "C18", Name: "resources-fixed", Journal: true,
	Rule: "fixed histories with bucket accounting: connections only (one closed by a close action); a rejected document after a connection was accepted; a replaced configuration with connections of both generations; connections MITM'd by the proxy (CONNECT + TLS over the shaped listener, one cut by a close action)",
	Run:  runNamed("resources-fixed"), Classes: classes,
}

func resourceCases() []Case {
	p := func(c Config) *Config { return &c }
	a := Config{Latency: 1, Shapes: []Shape{
		{Pat: 0, Closes: []CloseAct{{At: 300, N: 1}}, Halts: []Halt{{At: 100, Dur: 1, N: -1}}},
		{Pat: 1, Var: 1, MaxBW: 2 * bigBW, Throttles: []Throttle{{Bytes: "10-", BW: bigBW}}},
	}}
	bad := a
	bad.Shapes = append([]Shape(nil), a.Shapes...)
	bad.Shapes[1].Closes = []CloseAct{{At: 5, N: 0}}
	b := Config{Shapes: []Shape{{Pat: 0, Var: 2, Closes: []CloseAct{{At: 50, N: -1}}}, {Pat: 2}, {Pat: 3, Var: 1}}}
	m := Config{Shapes: []Shape{{Pat: 1, Var: 1, Closes: []CloseAct{{At: 500, N: 1}}, Halts: []Halt{{At: 200, Dur: 20, N: -1}}}, {Pat: 2, Var: 1}}}
	r := func(pat, body int, seed uint64) *Resp {
		return &Resp{Pat: pat, Body: body, Head: 80, Seed: seed, Splits: []int{64, 1000}}
	}
	return []Case{
		{Level: "conn", Res: true, Steps: []Step{
			{Op: "post", Cfg: p(a)}, {Op: "open", Conn: 0}, {Op: "open", Conn: 1},
			{Op: "resp", Conn: 0, R: r(0, 1000, 1)}, {Op: "resp", Conn: 1, R: r(1, 1000, 2)}, {Op: "resp", Conn: 1, R: r(0, 1000, 3)},
		}},
		// shaped connections wrapped around a connection whose Close reports an error; one client resets
		{Level: "conn", Res: true, Steps: []Step{
			{Op: "post", Cfg: p(a)}, {Op: "open", Conn: 0, Faulty: true}, {Op: "open", Conn: 1, Faulty: true}, {Op: "open", Conn: 2},
			{Op: "resp", Conn: 0, R: r(1, 1000, 12)}, {Op: "resp", Conn: 1, R: r(0, 1000, 13)}, {Op: "close", Conn: 2, Abort: true},
		}},
		{Level: "conn", Res: true, Steps: []Step{
			{Op: "post", Cfg: p(a)}, {Op: "open", Conn: 0}, {Op: "post", Cfg: p(bad)},
			{Op: "resp", Conn: 0, R: r(0, 1000, 4)}, {Op: "open", Conn: 1}, {Op: "resp", Conn: 1, R: r(0, 1000, 5)}, {Op: "close", Conn: 1},
		}},
		{Level: "conn", Res: true, Steps: []Step{
			{Op: "post", Cfg: p(a)}, {Op: "open", Conn: 0}, {Op: "post", Cfg: p(b)}, {Op: "open", Conn: 1},
			{Op: "resp", Conn: 0, R: r(0, 1000, 6)}, {Op: "resp", Conn: 1, R: r(0, 1000, 7)}, {Op: "post", Cfg: p(a)}, {Op: "open", Conn: 2},
		}},
		{Level: "mitm", Res: true, Steps: []Step{
			{Op: "post", Cfg: p(m)}, {Op: "open", Conn: 0}, {Op: "open", Conn: 1},
			{Op: "resp", Conn: 0, R: &Resp{Pat: -1, Body: 2000, Seed: 8}}, {Op: "resp", Conn: 0, R: &Resp{Pat: 1, Body: 2000, Seed: 9}},
			{Op: "resp", Conn: 1, R: &Resp{Pat: 1, Start: 100, Body: 2000, Seed: 10}}, {Op: "resp", Conn: 1, R: &Resp{Pat: 2, Body: 100, Seed: 11, Chunked: true}},
		}},
		// MITM'd clients that drop their connection (RST, no close_notify): closing the TLS session fails
		// on the proxy side, the buckets of the shaped connection around it must go all the same
		{Level: "mitm", Res: true, Steps: []Step{
			{Op: "post", Cfg: p(m)}, {Op: "open", Conn: 0}, {Op: "open", Conn: 1}, {Op: "open", Conn: 2},
			{Op: "resp", Conn: 0, R: &Resp{Pat: 2, Body: 700, Seed: 14}}, {Op: "resp", Conn: 1, R: &Resp{Pat: 1, Body: 400, Seed: 15}},
			{Op: "close", Conn: 0, Abort: true}, {Op: "close", Conn: 1, Abort: true}, {Op: "close", Conn: 2, Abort: true},
		}},
	}
}

// ---------------------------------------------------------------- lock stress

// LockCase lets connections that share one shape set their context and write
// in tight loops, optionally while configurations are posted.
type LockCase struct {
	Conns  int  `json:"conns"`
	Rounds int  `json:"rounds"`
	Posts  int  `json:"posts"`
	Fire   bool `json:"fire"` // the shape's action lies inside every body
}

func posterWorker(w *world, cfg Config, n int, stop <-chan struct{}) {
	for i := 0; i < n; i++ {
		select {
		case <-stop:
			return
		default:
		}
		w.post(cfg, nil)
		time.Sleep(50 * time.Microsecond)
	}
}

func runLockOnce(c LockCase, T time.Duration) kit.Verdict {
	w := newWorld("conn", T, false)
	defer w.teardown()
	at := int64(1000)
	if c.Fire {
		at = 5
	}
	cfg := Config{Shapes: []Shape{{Pat: 0, Halts: []Halt{{At: at, Dur: 0, N: -1}}}}}
	w.post(cfg, nil)
	var lanes []Lane
	for i := 0; i < c.Conns; i++ {
		w.open(i, false)
		ln := Lane{Conn: i}
		for r := 0; r < c.Rounds; r++ {
			ln.Rs = append(ln.Rs, Resp{Pat: 0, Body: 11, Head: 20, Seed: uint64(r + 1)})
		}
		lanes = append(lanes, ln)
	}
	if len(w.v) > 0 {
		return w.v
	}
	var poster func(stop <-chan struct{})
	if c.Posts > 0 {
		poster = func(stop <-chan struct{}) { posterWorker(w, cfg, c.Posts, stop) }
	}
	shape := "post-during-responses"
	switch {
	case c.Fire && c.Posts > 0:
		shape = "same-shape-actions-and-posts"
	case c.Fire:
		shape = "same-shape-actions"
	}
	res, verdict, detail := w.runLanes(lanes, 0, poster)
	switch verdict {
	case "deadlock":
		w.abort = true
		return kit.Failf("C18/concurrent/"+shape+"/writers-deadlocked", "%d connections x %d responses on one shape, %d concurrent POSTs: every unfinished goroutine waits for a lock, nobody is left to release one:\n%s", c.Conns, c.Rounds, c.Posts, trunc([]byte(detail), 3500))
	case "stuck":
		w.abort = true
		return kit.Failf("C18/concurrent/"+shape+"/writers-stuck-timeout", "%d connections x %d responses on one shape, %d concurrent POSTs did not finish within %v:\n%s", c.Conns, c.Rounds, c.Posts, T, trunc([]byte(detail), 3500))
	}
	for _, lane := range res {
		for _, o := range lane {
			w.settleConn(o)
			if o.cut && !o.skip {
				w.failf("C18/concurrent/"+shape+"/cut", "response %s was cut after %d bytes; the shape has no close action", o.url, o.db)
			}
		}
	}
	return w.v
}

var propLock = &kit.Prop[LockCase]{
	ID: "C18", Name: "locks", Journal: true,
	Rule: "2..4 connections sharing one shape each set their context (as proxy.go does) and write a small response 200..3000 times in a tight loop; the shape's action either fires in every response or never; optionally 50..400 POSTs of the same configuration run concurrently; everything must finish and every byte arrive; non-trivial = every case",
	Gen: func(t *rapid.T) LockCase {
		return LockCase{
			Conns:  rapid.IntRange(2, 4).Draw(t, "conns"),
			Rounds: pick(t, "rounds", 200, 1000, 2000),
			Posts:  pick(t, "posts", 0, 50, 400),
			Fire:   rapid.Bool().Draw(t, "fire"),
		}
	},
	Run: func(c LockCase) kit.Verdict {
		v := runLockOnce(c, kit.T())
		if needsRetry(v) && !kit.Shrinking() {
			v2 := runLockOnce(c, 3*kit.T())
			if len(v2) == 0 {
				kit.Inconclusive("locks")
				return nil
			}
			return v2
		}
		return v
	},
	Classes: func(c LockCase) []string {
		var out []string
		if c.Fire {
			out = append(out, "actions-fire")
		}
		if c.Posts > 0 {
			out = append(out, "concurrent-posts")
		}
		return out
	},
}

// ---------------------------------------------------------------- tests

func TestConn(t *testing.T) {
	if kit.Race() {
		t.Skip("sequential histories: nothing for the race detector")
	}
	propConn.Check(t, kit.N(120, 600))
}

func TestParallel(t *testing.T) {
	n := kit.N(40, 150)
	if kit.Race() {
		n = kit.N(40, 300)
	}
	propParallel.Check(t, n)
}

func TestE2E(t *testing.T) {
	n := kit.N(30, 150)
	if kit.Race() {
		n = kit.N(10, 60)
	}
	propE2E.Check(t, n)
}

func TestFixedMatrix(t *testing.T) {
	if kit.Race() {
		t.Skip()
	}
	propFixed.Enumerate(t, func(yield func(Case) bool) {
		for _, c := range fixedCases() {
			if !yield(c) {
				return
			}
		}
	})
}

func TestResourcesFixed(t *testing.T) {
	if kit.Race() {
		t.Skip()
	}
	propResFixed.Enumerate(t, func(yield func(Case) bool) {
		for _, c := range resourceCases() {
			if !yield(c) {
				return
			}
		}
	})
}

func TestResources(t *testing.T) {
	if kit.Race() {
		t.Skip()
	}
	propResources.Check(t, kit.N(2, 10))
}

func TestLocks(t *testing.T) {
	n := kit.N(10, 16)
	if kit.Race() {
		n = kit.N(8, 40)
	}
	propLock.Check(t, n)
}

func TestReplay(t *testing.T) {
	kit.Replay(t, propConn, propParallel, propE2E, propFixed, propResFixed, propResources, propLock)
}
