// Package c01 decides property C01: the HTTP/1 relay preserves every request
// and response, one-to-one and in order.
package c01

import (
	"bufio"
	"bytes"
	"compress/gzip"
	"crypto/sha256"
	"encoding/hex"
	"fmt"
	"io"
	"net"
	"net/http"
	"net/http/httptest"
	"net/textproto"
	"net/url"
	"sort"
	"strconv"
	"strings"
	"sync"
	"testing"
	"time"

	"github.com/google/martian/v3"
	"github.com/google/martian/v3/trafficshape"
	"pgregory.net/rapid"

	"verifharness/internal/kit"
	"verifharness/internal/netkit"
)

func TestMain(m *testing.M) { kit.Main(m, "C01") }

// Hdr is one header line.
type Hdr struct {
	N string `json:"n"`
	V string `json:"v"`
}

// Exchange is one request and the origin's scripted answer.
type Exchange struct {
	Method   string `json:"method"`
	Form     string `json:"form"` // origin | absolute | asterisk
	Host     string `json:"host"`
	Target   string `json:"target"` // raw path?query as written on the wire
	HTTP10   bool   `json:"http10,omitempty"`
	// KeepAlive10: an HTTP/1.0 request line with "Connection: keep-alive" - the
	// client asked to keep the connection, so the exchange is not close-marked and
	// the response must be delimited without closing (however the origin framed it).
	KeepAlive10 bool `json:"keepalive10,omitempty"`
	Headers  []Hdr  `json:"headers,omitempty"`
	ReqFrame string `json:"req_frame"` // none | cl | chunked
	ReqSize  int    `json:"req_size,omitempty"`
	ReqSeed  uint64 `json:"req_seed,omitempty"`
	ReqChunk []int  `json:"req_chunks,omitempty"`
	ChunkExt bool   `json:"chunk_ext,omitempty"`
	ReqClose bool   `json:"req_close,omitempty"`

	Status     int    `json:"status"`
	Interim    bool   `json:"interim,omitempty"`
	ResHeaders []Hdr  `json:"res_headers,omitempty"`
	ResFrame   string `json:"res_frame"` // cl | chunked | close | none
	ResSize    int    `json:"res_size,omitempty"`
	ResSeed    uint64 `json:"res_seed,omitempty"`
	ResChunk   []int  `json:"res_chunks,omitempty"`
	ResClose   bool   `json:"res_close,omitempty"`
	ResHTTP10  bool   `json:"res_http10,omitempty"`
	Gzip       bool   `json:"gzip,omitempty"`
	// Early: the origin answers after the request head, before reading the
	// body; the client holds back the second half of the body until it has the
	// response. The proxy must still consume that rest to keep the connection framed.
	Early bool `json:"early,omitempty"`
	// ResTEBodiless: a response that has no body by definition (to HEAD, a 304)
	// nevertheless announces "Transfer-Encoding: chunked" - what servers that
	// generate pages dynamically send, and RFC 7230 3.3.1 allows. No body bytes follow.
	ResTEBodiless bool `json:"res_te_bodiless,omitempty"`
	// DelayMs: the origin takes this long to produce its response.
	DelayMs int `json:"delay_ms,omitempty"`
	// Scheme of an absolute-form target; "" = http. "https" is only generated
	// together with Case.TLSOrigin (the origin then speaks TLS).
	Scheme string `json:"scheme,omitempty"`
	// ReqStyle / ResStyle: chunk extensions, zero-padded chunk sizes and trailer
	// sections of a chunked request / response body. Only the body they frame is
	// compared: trailers are not part of the header set the statement speaks of.
	ReqStyle *ChunkStyle `json:"req_style,omitempty"`
	ResStyle *ChunkStyle `json:"res_style,omitempty"`
}

// Case is a script of exchanges on one client connection.
type Case struct {
	Exchanges []Exchange `json:"exchanges"`
	Mode      string     `json:"mode"` // seq | pipe | batch
	Batch     int        `json:"batch,omitempty"`
	// Others: further client connections driven at the same time through the
	// same proxy (each with its own script). The property is per connection;
	// whatever the proxy shares between connections must not leak across them.
	Others []Sub `json:"others,omitempty"`
	// Shaped: the proxy is served on a trafficshape.Listener without any shape
	// configured; the relay must behave exactly as on a plain listener.
	Shaped bool `json:"shaped,omitempty"`
	// ShapeConfig (with Shaped): the configuration document posted to the
	// listener's trafficshape.Handler before any traffic; "" = none. All of them
	// leave the bandwidth uncapped or generously capped and define no shapes, so
	// the relay must still behave as on a plain listener (a document the handler
	// rejects leaves the listener as it was).
	ShapeConfig string `json:"shape_config,omitempty"`
	// HalfClose: the client shuts down the sending direction of its connection
	// right after the last request is written (FIN) and goes on reading - every
	// request it sent is still owed its response.
	HalfClose bool `json:"half_close,omitempty"`
	// TLSOrigin: the origin is reached over TLS and every request names it in
	// absolute-form with the scheme https (no CONNECT, no MITM involved).
	TLSOrigin bool `json:"tls_origin,omitempty"`
	// Bursts: see Sub.Bursts.
	Bursts []int `json:"bursts,omitempty"`
}

// Sub is the script of one additional concurrent connection.
type Sub struct {
	Exchanges []Exchange `json:"exchanges"`
	Mode      string     `json:"mode"`
	Batch     int        `json:"batch,omitempty"`
	HalfClose bool       `json:"half_close,omitempty"`
	// Bursts (mode "bursts"): the sizes of consecutive pipelined bursts, used cyclically.
	Bursts []int `json:"bursts,omitempty"`
}

// headNoLength: a HEAD exchange whose origin response carries neither a
// Content-Length nor a Transfer-Encoding field.
func (e *Exchange) headNoLength() bool {
	if e.Method != "HEAD" {
		return false
	}
	if e.Status == 204 || e.Status == 304 {
		return !(e.Status == 304 && e.ResTEBodiless)
	}
	return e.ResFrame != "cl" && !e.ResTEBodiless
}

func (e *Exchange) hasHeader(name string) bool {
	for _, h := range e.Headers {
		if textproto.CanonicalMIMEHeaderKey(h.N) == name {
			return true
		}
	}
	return false
}

func (e *Exchange) closeMarked() bool {
	return e.ReqClose || e.HTTP10 || e.ResClose || e.ResFrame == "close" || e.ResHTTP10
}

func (e *Exchange) bodiless() bool {
	return e.Method == "HEAD" || e.Status == 204 || e.Status == 304
}

// ---------------------------------------------------------------- wire forms

// ChunkStyle is how a chunked body is written beyond the chunk sizes: all of it
// is legal chunked coding (RFC 7230 4.1) that a recipient has to read through.
type ChunkStyle struct {
	// Ext is a chunk extension (with its leading ';'): on the first chunk line,
	// on later ones whose chunk is at least as long, and - ExtLast - on the
	// last-chunk line.
	Ext     string `json:"ext,omitempty"`
	ExtLast bool   `json:"ext_last,omitempty"`
	// Pad: chunk sizes are written with leading zeros to this many hex digits (<= 16).
	Pad int `json:"pad,omitempty"`
	// Trailers is the trailer section after the last chunk, announced with
	// Trailer: in the header section unless Unannounced (net/http's reader drops
	// trailer fields that were not announced: those are generated, not compared).
	Trailers    []Hdr `json:"trailers,omitempty"`
	Unannounced bool  `json:"unannounced,omitempty"`
}

// announced reports whether the style carries trailer fields named in Trailer:.
func (st *ChunkStyle) announced() bool {
	return st != nil && len(st.Trailers) > 0 && !st.Unannounced
}

func (st *ChunkStyle) trailerNames() string {
	var names []string
	for _, h := range st.Trailers {
		names = append(names, h.N)
	}
	return strings.Join(names, ", ")
}

func genStyle(t *rapid.T, label string) *ChunkStyle {
	if rapid.IntRange(0, 9).Draw(t, label+"_style") < 4 {
		return nil
	}
	st := &ChunkStyle{}
	hex := func(n int) string { return hex.EncodeToString(kit.Bytes(uint64(n), (n+1)/2))[:n] }
	switch rapid.IntRange(0, 7).Draw(t, label+"_ext_kind") {
	case 0, 1:
	case 2:
		st.Ext = rapid.SampledFrom([]string{";a=1", ";x", ";n=0"}).Draw(t, label+"_ext_short")
	case 3, 4:
		st.Ext = ";checksum=" + hex(rapid.SampledFrom([]int{2, 4, 8, 16, 32, 64, 200}).Draw(t, label+"_ext_len"))
	case 5:
		st.Ext = ";note=\"" + rapid.StringMatching(`[a-z0-9 ;=,]{0,40}`).Draw(t, label+"_ext_quoted") + "\""
	case 6:
		st.Ext = ";lastmodified;sig=" + hex(rapid.SampledFrom([]int{1, 6, 24}).Draw(t, label+"_ext_len2")) + ";q=\"x y\""
	default:
		st.Ext = ";" + rapid.StringMatching(`[a-z][a-z0-9-]{0,30}`).Draw(t, label+"_ext_name")
	}
	if st.Ext != "" {
		st.ExtLast = rapid.Bool().Draw(t, label+"_ext_last")
	}
	if rapid.IntRange(0, 3).Draw(t, label+"_padded") == 0 {
		st.Pad = rapid.SampledFrom([]int{2, 4, 8, 12, 15, 16}).Draw(t, label+"_pad")
	}
	if rapid.IntRange(0, 2).Draw(t, label+"_trailers") == 0 {
		n := rapid.IntRange(1, 3).Draw(t, label+"_ntrailers")
		for i := 0; i < n; i++ {
			size := rapid.SampledFrom([]int{1, 4, 20, 100, 900}).Draw(t, label+"_trailer_size")
			st.Trailers = append(st.Trailers, Hdr{N: []string{"X-Trail-A", "X-Trail-B", "X-Trail-Sum"}[i], V: string(kit.Text(uint64(size+i), size))})
		}
		st.Unannounced = rapid.IntRange(0, 4).Draw(t, label+"_unannounced") == 0
	}
	return st
}

func chunked(body []byte, sizes []int, ext bool, st *ChunkStyle) []byte {
	var b bytes.Buffer
	if st == nil {
		st = &ChunkStyle{}
	}
	i, k := 0, 0
	first := true
	for i < len(body) {
		n := 1024
		if len(sizes) > 0 {
			n = sizes[k%len(sizes)]
			k++
		}
		if n < 1 {
			n = 1
		}
		if i+n > len(body) {
			n = len(body) - i
		}
		// net/http's chunked reader (on either side of the proxy, and in the
		// harness) gives up on a body whose framing outweighs its data: a chunk
		// line may cost 12 bytes plus twice the chunk's length, what exceeds that
		// adds up to at most 16 KiB per body. Only the first chunk line (and the
		// last-chunk line) may exceed it here; the others fall back to a form that fits.
		ext1 := ""
		if st.Ext != "" {
			ext1 = st.Ext
		} else if ext && k%2 == 1 {
			ext1 = ";verif=1"
		}
		line := fmt.Sprintf("%0*x%s", st.Pad, n, ext1)
		if !first && len(line) > 12+2*n {
			line = fmt.Sprintf("%0*x", st.Pad, n)
		}
		if !first && len(line) > 12+2*n {
			line = fmt.Sprintf("%x", n)
		}
		b.WriteString(line + "\r\n")
		first = false
		b.Write(body[i : i+n])
		b.WriteString("\r\n")
		i += n
	}
	if st.ExtLast {
		fmt.Fprintf(&b, "%0*x%s\r\n", st.Pad, 0, st.Ext)
	} else {
		fmt.Fprintf(&b, "%0*x\r\n", st.Pad, 0)
	}
	for _, h := range st.Trailers {
		fmt.Fprintf(&b, "%s: %s\r\n", h.N, h.V)
	}
	b.WriteString("\r\n")
	return b.Bytes()
}

func (e *Exchange) reqBody() []byte {
	if e.ReqFrame == "none" {
		return nil
	}
	return kit.Bytes(e.ReqSeed, e.ReqSize)
}

func (e *Exchange) wireRequest(id string) []byte {
	var b bytes.Buffer
	proto := "HTTP/1.1"
	if e.HTTP10 || e.KeepAlive10 {
		proto = "HTTP/1.0"
	}
	switch e.Form {
	case "absolute":
		scheme := "http"
		if e.Scheme != "" {
			scheme = e.Scheme
		}
		fmt.Fprintf(&b, "%s %s://%s%s %s\r\n", e.Method, scheme, e.Host, e.Target, proto)
	case "asterisk":
		fmt.Fprintf(&b, "%s * %s\r\n", e.Method, proto)
	default:
		fmt.Fprintf(&b, "%s %s %s\r\n", e.Method, e.Target, proto)
	}
	fmt.Fprintf(&b, "Host: %s\r\n", e.Host)
	fmt.Fprintf(&b, "X-Verif-Id: %s\r\n", id)
	for _, h := range e.Headers {
		fmt.Fprintf(&b, "%s: %s\r\n", h.N, h.V)
	}
	if e.ReqClose {
		b.WriteString("Connection: close\r\n")
	} else if e.KeepAlive10 {
		b.WriteString("Connection: keep-alive\r\n")
	}
	body := e.reqBody()
	switch e.ReqFrame {
	case "cl":
		fmt.Fprintf(&b, "Content-Length: %d\r\n\r\n", len(body))
		b.Write(body)
	case "chunked":
		b.WriteString("Transfer-Encoding: chunked\r\n")
		if e.ReqStyle.announced() {
			fmt.Fprintf(&b, "Trailer: %s\r\n", e.ReqStyle.trailerNames())
		}
		b.WriteString("\r\n")
		b.Write(chunked(body, e.ReqChunk, e.ChunkExt, e.ReqStyle))
	default:
		b.WriteString("\r\n")
	}
	return b.Bytes()
}

func (e *Exchange) resBody() []byte {
	if e.bodiless() || e.ResFrame == "none" {
		return nil
	}
	plain := kit.Bytes(e.ResSeed, e.ResSize)
	if e.Gzip {
		var b bytes.Buffer
		zw, _ := gzip.NewWriterLevel(&b, gzip.BestSpeed)
		zw.Write(kit.Text(e.ResSeed, e.ResSize))
		zw.Close()
		return b.Bytes()
	}
	return plain
}

func (e *Exchange) wireResponse() []byte {
	var b bytes.Buffer
	if e.Interim {
		b.WriteString("HTTP/1.1 103 Early Hints\r\nLink: </style.css>; rel=preload\r\n\r\n")
	}
	proto := "HTTP/1.1"
	if e.ResHTTP10 {
		proto = "HTTP/1.0"
	}
	fmt.Fprintf(&b, "%s %d %s\r\n", proto, e.Status, http.StatusText(e.Status))
	for _, h := range e.ResHeaders {
		fmt.Fprintf(&b, "%s: %s\r\n", h.N, h.V)
	}
	if e.Gzip {
		b.WriteString("Content-Encoding: gzip\r\n")
	}
	if e.ResClose {
		b.WriteString("Connection: close\r\n")
	}
	body := e.resBody()
	switch {
	case e.Status == 204 || e.Status == 304:
		if e.Status == 304 && e.ResTEBodiless {
			b.WriteString("Transfer-Encoding: chunked\r\n")
		}
		b.WriteString("\r\n")
	case e.Method == "HEAD":
		if e.ResFrame == "cl" {
			fmt.Fprintf(&b, "Content-Length: %d\r\n", e.ResSize)
		} else if e.ResTEBodiless {
			b.WriteString("Transfer-Encoding: chunked\r\n")
		}
		b.WriteString("\r\n")
	case e.ResFrame == "cl":
		fmt.Fprintf(&b, "Content-Length: %d\r\n\r\n", len(body))
		b.Write(body)
	case e.ResFrame == "chunked":
		b.WriteString("Transfer-Encoding: chunked\r\n")
		if e.ResStyle.announced() {
			fmt.Fprintf(&b, "Trailer: %s\r\n", e.ResStyle.trailerNames())
		}
		b.WriteString("\r\n")
		b.Write(chunked(body, e.ResChunk, false, e.ResStyle))
	case e.ResFrame == "close":
		b.WriteString("\r\n")
		b.Write(body)
	default:
		b.WriteString("Content-Length: 0\r\n\r\n")
	}
	return b.Bytes()
}

// ---------------------------------------------------------------- generator

var (
	methods    = []string{"GET", "GET", "POST", "POST", "PUT", "DELETE", "PATCH", "OPTIONS", "HEAD", "PURGE", "REPORT", "GET", "POST", "connect", "Connect", "get", "M-SEARCH"}
	reqNames   = []string{"Accept", "X-Req-A", "x-lower-req", "X-UPPER-REQ", "Cookie", "Authorization", "Accept-Language", "X-Multi", "X-Multi", "User-Agent", "Accept-Encoding", "Referer", "X-Forwarded-For", "Via", "Cache-Control", "If-None-Match"}
	resNames   = []string{"Content-Type", "X-Res-A", "x-lower-res", "X-UPPER-RES", "Set-Cookie", "Set-Cookie", "Cache-Control", "Etag", "Vary", "X-Multi-Res", "X-Multi-Res", "Via", "Warning", "Content-Language"}
	statuses   = []int{200, 200, 200, 201, 204, 206, 301, 304, 404, 500, 503}
	hosts      = []string{"origin.test", "origin.test:8080", "other.example", "10.1.2.3:81", "UPPER.test"}
	pathSegs   = []string{"a", "b", "index.html", "..", ".", "", "%2F", "%2e%2e", "x%20y", "~u", "a;p=1", "caf%C3%A9", "a+b", "%41"}
	queryParts = []string{"x=1", "y", "x=2", "q=a%20b", "e=", "k=%2F", "a=b=c", "z=%26"}
)

// Configuration documents for the shaped listener: what they leave out falls
// back to the listener's defaults (uncapped); none defines a shape.
var (
	shapeKinds = []string{"none", "empty", "both-bandwidths", "up-only", "down-only", "empty-bandwidth", "latency-only", "empty-default", "empty-shapes", "latency+empty-shapes"}
	shapeDocs  = map[string]string{
		"none":                 "",
		"empty":                `{"trafficshape":{}}`,
		"both-bandwidths":      `{"trafficshape":{"default":{"bandwidth":{"up":2000000000,"down":2000000000}}}}`,
		"up-only":              `{"trafficshape":{"default":{"bandwidth":{"up":2000000000}}}}`,
		"down-only":            `{"trafficshape":{"default":{"bandwidth":{"down":2000000000}}}}`,
		"empty-bandwidth":      `{"trafficshape":{"default":{"bandwidth":{}}}}`,
		"latency-only":         `{"trafficshape":{"default":{"latency":0}}}`,
		"empty-default":        `{"trafficshape":{"default":{}}}`,
		"empty-shapes":         `{"trafficshape":{"shapes":[]}}`,
		"latency+empty-shapes": `{"trafficshape":{"default":{"latency":0},"shapes":[]}}`,
	}
)

func shapeKind(doc string) string {
	for _, k := range shapeKinds {
		if shapeDocs[k] == doc {
			return k
		}
	}
	return "other"
}

func genValue(t *rapid.T, label string) string {
	kind := rapid.IntRange(0, 9).Draw(t, label+"_kind")
	switch {
	case kind < 6:
		return rapid.StringMatching(`[A-Za-z0-9_.:/=-]{1,24}`).Draw(t, label)
	case kind < 8:
		return rapid.StringMatching(`[a-z]{1,6}(, [a-z0-9=;]{1,8}){1,3}`).Draw(t, label)
	case kind < 9:
		return rapid.StringMatching(`[a-z]{1,5}( {1,3}[A-Z"()]{1,5}){1,3}`).Draw(t, label)
	default:
		n := rapid.SampledFrom([]int{100, 1000, 4000, 8000}).Draw(t, label+"_len")
		return string(kit.Text(uint64(n), n))
	}
}

func genHeaders(t *rapid.T, names []string, max int, label string) []Hdr {
	n := rapid.IntRange(0, max).Draw(t, label+"_n")
	var out []Hdr
	seen := map[string]bool{}
	for i := 0; i < n; i++ {
		name := rapid.SampledFrom(names).Draw(t, label+"_name")
		// fields HTTP defines as singletons are sent at most once, as every real client does
		if singleton[name] && seen[name] {
			continue
		}
		seen[name] = true
		out = append(out, Hdr{N: name, V: genValue(t, label+"_value")})
	}
	return out
}

var singleton = map[string]bool{"User-Agent": true, "Authorization": true, "Referer": true, "Cookie": true, "Content-Type": true, "Etag": true, "Content-Language": true}

func genChunks(t *rapid.T, label string) []int {
	return rapid.SliceOfN(rapid.SampledFrom([]int{1, 2, 7, 100, 1000, 4096, 4097, 16384, 65536}), 1, 4).Draw(t, label)
}

func genExchange(t *rapid.T, maxBody int, last bool) Exchange {
	e := Exchange{
		Method: rapid.SampledFrom(methods).Draw(t, "method"),
		Host:   rapid.SampledFrom(hosts).Draw(t, "host"),
		Form:   rapid.SampledFrom([]string{"origin", "origin", "absolute", "absolute"}).Draw(t, "form"),
	}
	if e.Method == "OPTIONS" && rapid.IntRange(0, 2).Draw(t, "asterisk") == 0 {
		e.Form = "asterisk"
	}
	// target
	nseg := rapid.IntRange(0, 4).Draw(t, "nseg")
	path := ""
	for i := 0; i < nseg; i++ {
		path += "/" + rapid.SampledFrom(pathSegs).Draw(t, "seg")
	}
	if path == "" || rapid.IntRange(0, 5).Draw(t, "trail") == 0 {
		path += "/"
	}
	switch rapid.IntRange(0, 3).Draw(t, "qkind") {
	case 0:
	case 1:
		path += "?"
	default:
		nq := rapid.IntRange(1, 3).Draw(t, "nq")
		var qs []string
		for i := 0; i < nq; i++ {
			qs = append(qs, rapid.SampledFrom(queryParts).Draw(t, "qp"))
		}
		path += "?" + strings.Join(qs, "&")
	}
	e.Target = path
	e.Headers = genHeaders(t, reqNames, 8, "reqh")

	// request body
	if e.Method != "HEAD" && rapid.IntRange(0, 9).Draw(t, "hasbody") < bodyWeight(e.Method) {
		e.ReqFrame = rapid.SampledFrom([]string{"cl", "chunked"}).Draw(t, "req_frame")
		e.ReqSize = kit.Size(t, "req_size", maxBody)
		e.ReqSeed = rapid.Uint64Range(1, 1<<20).Draw(t, "req_seed")
		if e.ReqFrame == "chunked" {
			e.ReqChunk = genChunks(t, "req_chunks")
			e.ChunkExt = rapid.IntRange(0, 3).Draw(t, "chunk_ext") == 0
			e.ReqStyle = genStyle(t, "req")
			if e.ReqStyle.announced() && !e.hasHeader("User-Agent") && rapid.Bool().Draw(t, "user_agent_with_trailers") {
				// requests with and without a User-Agent take different paths to the
				// transport: both are drawn for requests that carry trailer fields
				e.Headers = append(e.Headers, Hdr{N: "User-Agent", V: "verif-client/1.0"})
			}
		}
	} else {
		e.ReqFrame = "none"
	}

	// response
	e.Status = rapid.SampledFrom(statuses).Draw(t, "status")
	e.Interim = rapid.IntRange(0, 19).Draw(t, "interim") == 0
	e.ResHeaders = genHeaders(t, resNames, 6, "resh")
	if rapid.IntRange(0, 59).Draw(t, "huge_head") == 0 {
		// a response header block well past 1 MiB (the transport's own limit is 10 MiB)
		for i := 0; i < 150; i++ {
			e.ResHeaders = append(e.ResHeaders, Hdr{fmt.Sprintf("X-Bulk-%d", i), string(kit.Text(uint64(i+1), 8000))})
		}
	}
	if e.Status == 301 {
		e.ResHeaders = append(e.ResHeaders, Hdr{"Location", "http://elsewhere.test/moved?x=1"})
	}
	frames := []string{"cl", "cl", "chunked", "chunked", "none"}
	if last {
		frames = append(frames, "close")
	}
	e.ResFrame = rapid.SampledFrom(frames).Draw(t, "res_frame")
	if !e.bodiless() && e.ResFrame != "none" {
		e.ResSize = kit.Size(t, "res_size", maxBody)
		e.ResSeed = rapid.Uint64Range(1, 1<<20).Draw(t, "res_seed")
		if e.ResFrame == "chunked" {
			e.ResChunk = genChunks(t, "res_chunks")
			e.ResStyle = genStyle(t, "res")
		}
	} else if e.Method == "HEAD" && e.ResFrame == "cl" {
		e.ResSize = rapid.IntRange(0, 100000).Draw(t, "head_cl")
	}
	if e.ResFrame == "close" && e.bodiless() {
		e.ResFrame = "none"
	}
	if (e.Method == "HEAD" || e.Status == 304) && e.Status != 204 && e.ResFrame == "chunked" {
		e.ResTEBodiless = rapid.Bool().Draw(t, "res_te_bodiless")
	}
	if rapid.IntRange(0, 19).Draw(t, "slow_origin") == 0 {
		e.DelayMs = rapid.SampledFrom([]int{1, 5, 20}).Draw(t, "delay_ms")
	}
	if last {
		switch rapid.IntRange(0, 9).Draw(t, "closer") {
		case 0:
			e.ReqClose = true
		case 1:
			e.ResClose = true
		case 2:
			if e.ReqFrame != "chunked" {
				e.HTTP10 = true
			}
		case 3:
			if e.ResFrame == "close" {
				e.ResHTTP10 = true
			}
		}
	}
	if !e.HTTP10 && !e.ReqClose && e.ReqFrame != "chunked" && rapid.IntRange(0, 7).Draw(t, "keepalive10") == 0 {
		e.KeepAlive10 = true
	}
	if e.ReqFrame != "none" && e.ReqSize >= 2 && e.ResFrame != "close" && !e.HTTP10 && !e.ResHTTP10 && rapid.IntRange(0, 5).Draw(t, "early") == 0 {
		e.Early = true
		if e.ReqSize > 300000 {
			e.ReqSize = 300000
		}
	}
	// gzip the origin chose although the client never offered it
	offered := false
	for _, h := range e.Headers {
		ln := strings.ToLower(h.N)
		if ln == "accept-encoding" || ln == "range" {
			offered = true
		}
	}
	if !offered && !e.bodiless() && e.ResFrame != "none" && e.Method != "HEAD" && rapid.IntRange(0, 7).Draw(t, "gzip") == 0 {
		e.Gzip = true
	}
	return e
}

func bodyWeight(method string) int {
	switch method {
	case "POST", "PUT", "PATCH", "REPORT":
		return 8
	case "GET", "DELETE", "OPTIONS", "PURGE":
		return 1
	}
	return 0
}

func genCase(t *rapid.T) Case {
	maxBody := kit.N(256<<10, 4<<20)
	n := rapid.IntRange(1, kit.N(6, 12)).Draw(t, "n")
	if rapid.IntRange(0, 4).Draw(t, "single") == 0 {
		n = 1
	}
	c := Case{Mode: rapid.SampledFrom([]string{"seq", "pipe", "pipe", "batch"}).Draw(t, "mode")}
	if c.Mode == "batch" {
		c.Batch = rapid.IntRange(2, 3).Draw(t, "batch")
	}
	big := 0
	for i := 0; i < n; i++ {
		e := genExchange(t, maxBody, i == n-1)
		// keep the total volume of one case bounded: at most two MiB-sized bodies
		if e.ReqSize > 1<<20 || e.ResSize > 1<<20 {
			big++
			if big > 2 {
				if e.ReqSize > 1<<20 {
					e.ReqSize = 70000
				}
				if e.ResSize > 1<<20 {
					e.ResSize = 70000
				}
			}
		}
		c.Exchanges = append(c.Exchanges, e)
	}
	c.Shaped = rapid.IntRange(0, 4).Draw(t, "shaped") == 0
	if c.Shaped {
		c.ShapeConfig = shapeDocs[rapid.SampledFrom(shapeKinds).Draw(t, "shape_config")]
	}
	if rapid.IntRange(0, 3).Draw(t, "parallel") == 0 {
		m := rapid.IntRange(1, 2).Draw(t, "others")
		for k := 0; k < m; k++ {
			sub := Sub{Mode: rapid.SampledFrom([]string{"seq", "pipe"}).Draw(t, "omode")}
			on := rapid.IntRange(1, 4).Draw(t, "on")
			for i := 0; i < on; i++ {
				e := genExchange(t, 70000, i == on-1)
				e.Early = false
				sub.Exchanges = append(sub.Exchanges, e)
			}
			c.Others = append(c.Others, sub)
		}
	}
	if !c.Exchanges[n-1].closeMarked() {
		// probe: the connection must still be usable
		c.Exchanges = append(c.Exchanges, Exchange{Method: "GET", Form: "origin", Host: "origin.test", Target: "/probe", ReqFrame: "none", Status: 200, ResFrame: "cl", ResSize: 5, ResSeed: 99})
	}
	if rapid.IntRange(0, 7).Draw(t, "half_close") == 0 {
		// the FIN travels right behind the last request; the origin may still be busy with it
		c.HalfClose = true
		c.Exchanges[len(c.Exchanges)-1].DelayMs = rapid.SampledFrom([]int{0, 2, 10, 30}).Draw(t, "half_close_delay_ms")
	}
	if rapid.IntRange(0, 11).Draw(t, "tls_origin") == 0 {
		c.TLSOrigin = true
		for i := range c.Exchanges {
			c.Exchanges[i].Form, c.Exchanges[i].Scheme = "absolute", "https"
			// an upload the client holds back until it has the response is a
			// dimension of its own; it is not combined with this one
			c.Exchanges[i].Early = false
		}
		for k := range c.Others {
			for i := range c.Others[k].Exchanges {
				c.Others[k].Exchanges[i].Form, c.Others[k].Exchanges[i].Scheme = "absolute", "https"
			}
		}
	}
	return c
}

// ---------------------------------------------------------------- oracle

var hopByHop = map[string]bool{"Connection": true, "Keep-Alive": true, "Proxy-Authenticate": true, "Proxy-Authorization": true,
	"Proxy-Connection": true, "Te": true, "Trailer": true, "Transfer-Encoding": true, "Upgrade": true, "Content-Length": true, "Host": true}

func wantHeaders(hs []Hdr) map[string][]string {
	out := map[string][]string{}
	for _, h := range hs {
		k := textproto.CanonicalMIMEHeaderKey(h.N)
		if hopByHop[k] {
			continue
		}
		out[k] = append(out[k], strings.TrimSpace(h.V))
	}
	return out
}

func sameValues(a, b []string) bool {
	if len(a) != len(b) {
		return false
	}
	for i := range a {
		if a[i] != b[i] {
			return false
		}
	}
	return true
}

func sha(b []byte) string {
	h := sha256.Sum256(b)
	return hex.EncodeToString(h[:8])
}

func shape(e *Exchange) string {
	if e.Scheme == "https" {
		return "https-absolute-form-target"
	}
	if e.Gzip {
		return "gzip-not-offered-by-client"
	}
	return "any"
}

func trailerShape(e *Exchange) string {
	if sh := shape(e); sh != "any" {
		return sh
	}
	return "announced-trailer-fields"
}

func names(h http.Header) []string {
	var out []string
	for k := range h {
		out = append(out, k)
	}
	sort.Strings(out)
	return out
}

// shapeAt is the shape of exchange i as part of its script: what precedes it
// on the connection and what the client does around it belong to the shape.
func shapeAt(c *Sub, i int) string {
	e := &c.Exchanges[i]
	switch {
	case e.Scheme == "https":
		return shape(e)
	case i > 0 && c.Exchanges[i-1].ResTEBodiless:
		return "after-bodiless-response-announcing-chunked"
	case shape(e) != "any":
		return shape(e)
	case c.HalfClose && i == len(c.Exchanges)-1:
		return "client-half-closed-after-last-request"
	}
	return "any"
}

func run(c Case) kit.Verdict {
	v := runOnce(c, kit.T())
	if len(v) > 0 && strings.Contains(v[0].Sig, "/timeout") && !kit.Shrinking() {
		// a bounded wait expired: re-validate once in isolation with a longer bound
		v2 := runOnce(c, 3*kit.T())
		if len(v2) == 0 {
			kit.Inconclusive("relay")
			return nil
		}
		return v2
	}
	return v
}

type got struct {
	res *netkit.Resp
	err error
}

func lookup(subs []Sub, id string) *Exchange {
	var k, i int
	if _, err := fmt.Sscanf(id, "%d.%d", &k, &i); err != nil || k < 0 || k >= len(subs) || i < 0 || i >= len(subs[k].Exchanges) {
		return nil
	}
	return &subs[k].Exchanges[i]
}

// originReq is what the origin saw for one request, trailer fields included
// (netkit's own log does not keep them).
type originReq struct {
	netkit.ReqLog
	Trailer http.Header
}

type recorder struct {
	mu  sync.Mutex
	log []originReq
}

func (rc *recorder) add(r *originReq) {
	rc.mu.Lock()
	r.Seq = len(rc.log)
	rc.log = append(rc.log, *r)
	rc.mu.Unlock()
}

func (rc *recorder) all() []originReq {
	rc.mu.Lock()
	defer rc.mu.Unlock()
	return append([]originReq(nil), rc.log...)
}

// serveOrigin is netkit's origin loop for one connection (taken over through
// AcceptHook) that also records the trailer fields of each request.
func serveOrigin(idx int, c net.Conn, isTLS bool, rc *recorder, handler func(*netkit.ReqLog) netkit.Script, early func(*netkit.ReqLog) *netkit.Script) {
	br := bufio.NewReaderSize(c, 64<<10)
	for {
		c.SetReadDeadline(time.Now().Add(90 * time.Second))
		req, err := http.ReadRequest(br)
		if err != nil {
			return
		}
		head := netkit.ReqLog{Conn: idx, TLS: isTLS, Method: req.Method, RequestURI: req.RequestURI, Proto: req.Proto,
			Path: req.URL.Path, RawQuery: req.URL.RawQuery, Host: req.Host, Header: req.Header,
			TE: req.TransferEncoding, CL: req.ContentLength, Close: req.Close, BodyLen: -1}
		if sc := early(&head); sc != nil {
			rc.add(&originReq{ReqLog: head})
			c.SetWriteDeadline(time.Now().Add(60 * time.Second))
			if _, err := c.Write(sc.Raw); err != nil {
				return
			}
			if _, err := io.Copy(io.Discard, req.Body); err != nil || sc.After == "close" {
				return
			}
			continue
		}
		h := sha256.New()
		n, berr := io.Copy(h, req.Body)
		rl := originReq{ReqLog: head, Trailer: req.Trailer.Clone()}
		rl.BodyLen, rl.BodySHA = int(n), hex.EncodeToString(h.Sum(nil)[:8])
		if berr != nil {
			rl.BodyErr = berr.Error()
		}
		rc.add(&rl)
		if berr != nil {
			return
		}
		sc := handler(&rl.ReqLog)
		if sc.Delay > 0 {
			time.Sleep(sc.Delay)
		}
		c.SetWriteDeadline(time.Now().Add(60 * time.Second))
		if _, err := c.Write(sc.Raw); err != nil {
			return
		}
		if sc.After == "close" {
			return
		}
	}
}

func runOnce(c Case, T time.Duration) (v kit.Verdict) {
	subs := append([]Sub{{Exchanges: c.Exchanges, Mode: c.Mode, Batch: c.Batch, HalfClose: c.HalfClose, Bursts: c.Bursts}}, c.Others...)
	handler := func(r *netkit.ReqLog) netkit.Script {
		e := lookup(subs, r.Header.Get("X-Verif-Id"))
		if e == nil {
			return netkit.Script{Raw: []byte("HTTP/1.1 500 Internal Server Error\r\nX-Verif-Origin: unknown-id\r\nContent-Length: 0\r\n\r\n"), CutAt: -1}
		}
		sc := netkit.Script{Raw: e.wireResponse(), CutAt: -1, Delay: time.Duration(e.DelayMs) * time.Millisecond}
		if e.ResClose || e.ResFrame == "close" || e.ResHTTP10 {
			sc.After = "close"
		}
		return sc
	}
	early := func(r *netkit.ReqLog) *netkit.Script {
		e := lookup(subs, r.Header.Get("X-Verif-Id"))
		if e == nil || !e.Early {
			return nil
		}
		sc := &netkit.Script{Raw: e.wireResponse(), CutAt: -1}
		if e.ResClose {
			sc.After = "close"
		}
		return sc
	}
	rec := &recorder{}
	hook := func(idx int, conn net.Conn) bool {
		serveOrigin(idx, conn, c.TLSOrigin, rec, handler, early)
		return true
	}
	var origin *netkit.Origin
	if c.TLSOrigin {
		var names []string
		for _, h := range hosts {
			if name, _, err := net.SplitHostPort(h); err == nil {
				h = name
			}
			names = append(names, strings.ToLower(h))
		}
		origin = netkit.NewTLSOrigin(netkit.ServerTLS(names...), handler)
	} else {
		origin = netkit.NewOrigin(handler)
	}
	// no connection can arrive before the proxy below is started
	origin.AcceptHook = hook
	defer origin.Close()
	dialer := &netkit.Dialer{Route: func(string) string { return origin.Addr }}
	p := martian.NewProxy()
	p.SetTimeout(60 * time.Second)
	if c.TLSOrigin {
		// the proxy's transport has to trust the authority that signed the
		// origin's certificate (the default one uses the system roots)
		netkit.UpstreamTLS(p)
	}
	p.SetDial(dialer.Dial)
	var wrap func(net.Listener) net.Listener
	if c.Shaped {
		wrap = func(l net.Listener) net.Listener {
			tl := trafficshape.NewListener(l)
			if c.ShapeConfig != "" {
				rw := httptest.NewRecorder()
				trafficshape.NewHandler(tl).ServeHTTP(rw, httptest.NewRequest("POST", "/shape-traffic", strings.NewReader(c.ShapeConfig)))
			}
			return tl
		}
	}
	pr := netkit.Start(p, wrap)
	defer pr.Stop(10 * time.Second)

	all := make([][]got, len(subs))
	verdicts := make([]kit.Verdict, len(subs))
	var wg sync.WaitGroup
	for k := range subs {
		wg.Add(1)
		go func(k int) {
			defer wg.Done()
			verdicts[k], all[k] = runConn(k, subs[k], pr.Addr, T)
		}(k)
	}
	wg.Wait()
	for _, vv := range verdicts {
		v = append(v, vv...)
	}
	pr.Stop(10 * time.Second)
	log := rec.all()
	for k := range subs {
		var mine []originReq
		prefix := strconv.Itoa(k) + "."
		for _, r := range log {
			if strings.HasPrefix(r.Header.Get("X-Verif-Id"), prefix) {
				mine = append(mine, r)
			}
		}
		v = append(v, checkOrigin(k, subs[k], all[k], mine, len(v) == 0)...)
	}
	known := 0
	for _, r := range log {
		if lookup(subs, r.Header.Get("X-Verif-Id")) != nil {
			known++
		}
	}
	if len(v) == 0 && known != len(log) {
		v.Addf("C01/request/any/extra-requests-at-origin", "origin logged %d requests, %d of them carry no id of this case", len(log), len(log)-known)
	}
	return v
}

// runConn drives one client connection through its script.
func runConn(k int, c Sub, proxyAddr string, T time.Duration) (v kit.Verdict, results []got) {
	cl, err := netkit.Dial(proxyAddr)
	if err != nil {
		return kit.Failf("C01/harness/dial", "cannot reach the proxy: %v", err), nil
	}
	defer cl.Close()

	n := len(c.Exchanges)
	results = make([]got, n)
	var wmu sync.Mutex
	var werr error
	gotResp := make([]chan struct{}, n)
	for i := range gotResp {
		gotResp[i] = make(chan struct{})
	}
	writeExchange := func(i int) error {
		raw := c.Exchanges[i].wireRequest(fmt.Sprintf("%d.%d", k, i))
		if !c.Exchanges[i].Early {
			return cl.Write(raw)
		}
		// the last byte(s) of the framed body are held back until the response is here
		hold := len(raw) - (c.Exchanges[i].ReqSize+1)/2
		if err := cl.Write(raw[:hold]); err != nil {
			return err
		}
		select {
		case <-gotResp[i]:
		case <-time.After(4 * T):
			return fmt.Errorf("no response to the early-reply exchange within %v", 4*T)
		}
		err := cl.Write(raw[hold:])
		if err != nil && c.Exchanges[i].closeMarked() {
			// The response is already here and the exchange asked to close: the
			// proxy may close without waiting for the rest of the body, and
			// writing into that closed connection fails legitimately.
			return nil
		}
		return err
	}
	writeRange := func(lo, hi int) {
		for i := lo; i < hi; i++ {
			if err := writeExchange(i); err != nil {
				wmu.Lock()
				if werr == nil {
					werr = fmt.Errorf("writing request %d: %v", i, err)
				}
				wmu.Unlock()
				return
			}
			if c.HalfClose && i == n-1 {
				if tc, ok := cl.Conn.(*net.TCPConn); ok {
					tc.CloseWrite()
				}
			}
		}
	}
	readRange := func(lo, hi int) bool {
		for i := lo; i < hi; i++ {
			res, _, err := cl.ReadResponse(c.Exchanges[i].Method, T)
			results[i] = got{res, err}
			close(gotResp[i])
			if err != nil {
				return false
			}
		}
		return true
	}
	step := 1
	switch c.Mode {
	case "pipe":
		step = n
	case "batch":
		step = c.Batch
	}
	readOK := true
	for lo, b := 0, 0; lo < n && readOK; lo, b = lo+step, b+1 {
		if c.Mode == "bursts" && len(c.Bursts) > 0 {
			step = c.Bursts[b%len(c.Bursts)]
			if step < 1 {
				step = 1
			}
		}
		hi := lo + step
		if hi > n {
			hi = n
		}
		done := make(chan struct{})
		go func() { writeRange(lo, hi); close(done) }()
		readOK = readRange(lo, hi)
		if !readOK {
			cl.Conn.Close() // unblock the writer
		}
		<-done
	}

	// (O2) responses at the client
	for i := 0; i < n; i++ {
		e := &c.Exchanges[i]
		g := results[i]
		if g.res == nil && g.err == nil {
			break // not reached because of an earlier failure
		}
		if g.err != nil {
			class := "unparseable-or-missing"
			if netkit.IsTimeout(g.err) {
				class = "timeout"
			}
			v.Addf("C01/response/"+shapeAt(&c, i)+"/"+class, "response %d of %d (%s %s, origin framing %s, mode %s): %v", i, n, e.Method, e.Target, e.ResFrame, c.Mode, g.err)
			break
		}
		r := g.res
		if e.Early && r.Status == 502 {
			continue // the transport may report the aborted upload instead; C03's territory
		}
		if r.Status != e.Status {
			v.Addf("C01/response/"+shapeAt(&c, i)+"/status-differs", "response %d: status %d, origin sent %d (headers %v)", i, r.Status, e.Status, r.Header)
			break
		}
		// a HEAD response's Content-Length is not framing but what the origin says
		// about the representation: an end-to-end value like any other
		if e.Method == "HEAD" && e.Status != 204 && e.Status != 304 && e.ResFrame == "cl" && r.CL != int64(e.ResSize) {
			v.Addf("C01/response/head-with-content-length/content-length-differs", "response %d (HEAD): Content-Length %d (header %q), origin sent %d", i, r.CL, r.Header["Content-Length"], e.ResSize)
		}
		// neither side asked to close: the response must not tell the client that
		// the connection ends here (a client that believes it cannot use it again)
		if !e.closeMarked() && r.Close {
			sh := shape(e)
			if e.headNoLength() {
				sh = "head-response-without-length"
			}
			v.Addf("C01/keepalive/"+sh+"/close-announced", "response %d (%s, status %d, origin framing %s): carries Connection: close although neither the client nor the origin asked to close", i, e.Method, e.Status, e.ResFrame)
		}
		for name, want := range wantHeaders(e.ResHeaders) {
			if !sameValues(r.Header[name], want) {
				v.Addf("C01/response/"+shape(e)+"/header-values-differ", "response %d: header %s = %q, origin sent %q", i, name, r.Header[name], want)
			}
		}
		if e.Gzip && !sameValues(r.Header["Content-Encoding"], []string{"gzip"}) {
			v.Addf("C01/response/"+shape(e)+"/header-values-differ", "response %d: Content-Encoding = %q, origin sent [gzip]", i, r.Header["Content-Encoding"])
		}
		want := e.resBody()
		if r.BodyErr != nil {
			class := "body-incomplete"
			if netkit.IsTimeout(r.BodyErr) {
				class = "timeout"
			}
			v.Addf("C01/response/"+shape(e)+"/"+class, "response %d: body read failed after %d of %d bytes: %v", i, len(r.Body), len(want), r.BodyErr)
			break
		}
		if e.ResFrame == "chunked" && !e.bodiless() && e.ResStyle.announced() && !e.HTTP10 && !e.KeepAlive10 {
			for name, want := range wantHeaders(e.ResStyle.Trailers) {
				if !sameValues(r.Trailer[name], want) {
					v.Addf("C01/response/"+trailerShape(e)+"/trailer-fields-differ", "response %d: client saw trailer %s = %.80q (trailer names %v), origin sent %.80q", i, name, r.Trailer[name], names(r.Trailer), want)
				}
			}
		}
		if !bytes.Equal(r.Body, want) {
			v.Addf("C01/response/"+shape(e)+"/body-differs", "response %d (origin framing %s, %d bytes): %s", i, e.ResFrame, len(want), kit.Diff(want, r.Body))
			break
		}
	}
	if werr != nil && len(v) == 0 {
		v.Addf("C01/request/any/client-write-failed", "%v", werr)
	}

	// (O3) connection fate
	last := &c.Exchanges[n-1]
	if len(v) == 0 && last.closeMarked() {
		stray, eof, err := cl.ExpectEOF(T)
		if len(stray) > 0 {
			sh := shape(last)
			if sh == "any" && last.ResTEBodiless {
				sh = "bodiless-response-announcing-chunked"
			}
			v.Addf("C01/close/"+sh+"/stray-bytes-after-last-response", "%d unexpected bytes after the last response: %q", len(stray), trunc(stray, 80))
		} else if !eof {
			class := "not-closed"
			if netkit.IsTimeout(err) {
				class = "timeout"
			}
			v.Addf("C01/close/"+shape(last)+"/"+class, "exchange %d asked to close (req_close=%v res_close=%v http10=%v res_frame=%s) but the proxy kept the connection open: %v", n-1, last.ReqClose, last.ResClose, last.HTTP10, last.ResFrame, err)
		}
	}

	return v, results
}

// checkOrigin compares what the origin received on behalf of connection k.
func checkOrigin(k int, c Sub, results []got, log []originReq, strict bool) (v kit.Verdict) {
	n := len(c.Exchanges)
	if results == nil {
		return nil
	}
	// (O1) what the origin received
	for i := 0; i < n; i++ {
		e := &c.Exchanges[i]
		if results[i].res == nil {
			break // only exchanges that completed at the client are compared
		}
		if i >= len(log) {
			v.Addf("C01/request/"+shape(e)+"/never-reached-origin", "request %d (%s %s) got a response but the origin logged only %d requests", i, e.Method, e.Target, len(log))
			break
		}
		r := log[i]
		if r.Header.Get("X-Verif-Id") != fmt.Sprintf("%d.%d", k, i) {
			v.Addf("C01/request/"+shape(e)+"/order-differs", "origin's request #%d carries id %q", i, r.Header.Get("X-Verif-Id"))
			break
		}
		if r.Method != e.Method {
			v.Addf("C01/request/"+shape(e)+"/method-differs", "request %d: origin saw method %s, client sent %s", i, r.Method, e.Method)
		}
		wantPath, wantQuery := "*", ""
		if e.Form != "asterisk" {
			u, err := url.ParseRequestURI(e.Target)
			if err != nil {
				v.Addf("C01/harness/bad-target", "generator produced an unparseable target %q: %v", e.Target, err)
				break
			}
			wantPath, wantQuery = u.Path, u.RawQuery
		}
		if r.Path != wantPath || r.RawQuery != wantQuery {
			v.Addf("C01/request/"+shape(e)+"/path-or-query-differs", "request %d: origin saw path %q query %q (request-uri %q), client sent %q (path %q query %q)", i, r.Path, r.RawQuery, r.RequestURI, e.Target, wantPath, wantQuery)
		}
		for name, want := range wantHeaders(e.Headers) {
			if !sameValues(r.Header[name], want) {
				v.Addf("C01/request/"+shape(e)+"/header-values-differ", "request %d: origin saw %s = %q, client sent %q", i, name, r.Header[name], want)
			}
		}
		body := e.reqBody()
		if e.Early {
			continue // the origin answered without waiting for the body
		}
		// trailer fields announced in Trailer: are header fields of the request,
		// sent behind its body (RFC 7230 4.1.2)
		if e.ReqFrame == "chunked" && e.ReqStyle.announced() {
			for name, want := range wantHeaders(e.ReqStyle.Trailers) {
				if !sameValues(r.Trailer[name], want) {
					v.Addf("C01/request/"+trailerShape(e)+"/trailer-fields-differ", "request %d (%s, user-agent sent: %v): origin saw trailer %s = %.80q (trailer names %v), client sent %.80q", i, e.Method, e.hasHeader("User-Agent"), name, r.Trailer[name], names(r.Trailer), want)
				}
			}
		}
		if r.BodyLen != len(body) || r.BodySHA != sha(body) {
			v.Addf("C01/request/"+shape(e)+"/body-differs", "request %d (%s, framing %s): origin read %d bytes (sha %s, err %q), client sent %d bytes (sha %s)", i, e.Method, e.ReqFrame, r.BodyLen, r.BodySHA, r.BodyErr, len(body), sha(body))
		}
	}
	if strict && len(v) == 0 && len(log) > n {
		v.Addf("C01/request/any/extra-requests-at-origin", "origin logged %d requests of connection %d, its client sent %d", len(log), k, n)
	}
	return v
}

func trunc(b []byte, n int) []byte {
	if len(b) > n {
		return b[:n]
	}
	return b
}

func styleFlags(flags map[string]bool, side string, st *ChunkStyle) {
	if st == nil {
		return
	}
	if st.Pad+len(st.Ext)+2 > 16 || len(st.Ext) > 12 {
		flags["chunked-"+side+"-chunk-line>16"] = true
	}
	if len(st.Trailers) > 0 {
		flags["chunked-"+side+"-trailers"] = true
	}
	if st.announced() {
		flags["chunked-"+side+"-trailers-announced"] = true
	}
}

func nontrivial(c Case) bool {
	if len(c.Exchanges) >= 2 {
		return true
	}
	for _, e := range c.Exchanges {
		if e.ReqSize >= 4097 || e.ResSize >= 4097 || e.ReqFrame == "chunked" || e.ResFrame == "chunked" || e.ResFrame == "close" {
			return true
		}
		seen := map[string]bool{}
		for _, h := range append(append([]Hdr{}, e.Headers...), e.ResHeaders...) {
			k := textproto.CanonicalMIMEHeaderKey(h.N)
			if seen[k] {
				return true
			}
			seen[k] = true
		}
	}
	return false
}

func classes(c Case) []string {
	var cl []string
	if len(c.Others) > 0 {
		cl = append(cl, "concurrent-connections")
	}
	if c.Shaped {
		cl = append(cl, "traffic-shaped-listener")
		cl = append(cl, "shape-config-"+shapeKind(c.ShapeConfig))
	}
	if len(c.Exchanges) >= 2 {
		cl = append(cl, "multi-exchange")
		if c.Mode != "seq" {
			cl = append(cl, "pipelined")
		}
	}
	flags := map[string]bool{}
	for _, e := range c.Exchanges {
		if e.ReqFrame == "chunked" {
			flags["chunked-request"] = true
			styleFlags(flags, "request", e.ReqStyle)
			if e.ReqStyle.announced() {
				if e.hasHeader("User-Agent") {
					flags["request-trailers+user-agent"] = true
				} else {
					flags["request-trailers+no-user-agent"] = true
				}
			}
		}
		if e.ResFrame == "chunked" && !e.bodiless() {
			styleFlags(flags, "response", e.ResStyle)
		}
		if e.ResFrame == "chunked" {
			flags["chunked-response"] = true
		}
		if e.ResFrame == "close" {
			flags["close-delimited-response"] = true
		}
		if e.ReqSize > 65536 || e.ResSize > 65536 {
			flags["body>64KiB"] = true
		}
		if e.Gzip {
			flags["gzip-not-offered"] = true
		}
		if e.Method == "HEAD" {
			flags["head"] = true
		}
		if e.Form == "absolute" {
			flags["absolute-form"] = true
		}
		if e.HTTP10 {
			flags["http10-request"] = true
		}
		if len(e.ResHeaders) > 100 {
			flags["response-head>1MiB"] = true
		}
		if e.Method != strings.ToUpper(e.Method) {
			flags["method-not-upper-case"] = true
		}
		if e.KeepAlive10 {
			flags["http10-keep-alive-request"] = true
			if e.ResFrame == "chunked" && !e.bodiless() {
				flags["http10-keep-alive+chunked-response"] = true
			}
		}
		if e.closeMarked() {
			flags["close-marked"] = true
		}
		if e.Early {
			flags["early-reply"] = true
		}
		if e.ResTEBodiless {
			flags["bodiless-response-announcing-chunked"] = true
		}
		if e.headNoLength() {
			flags["head-response-without-length"] = true
		}
		if e.Method == "HEAD" && e.Status != 204 && e.Status != 304 && e.ResFrame == "cl" && e.ResSize > 0 {
			flags["head-response-with-content-length"] = true
		}
		if e.DelayMs > 0 {
			flags["slow-origin"] = true
		}
	}
	if c.HalfClose {
		cl = append(cl, "client-half-close")
		if c.Exchanges[len(c.Exchanges)-1].DelayMs > 0 {
			cl = append(cl, "client-half-close+slow-origin")
		}
	}
	if c.TLSOrigin {
		cl = append(cl, "https-absolute-form-target")
	}
	for k := range flags {
		cl = append(cl, k)
	}
	return cl
}

var propRelay = &kit.Prop[Case]{
	ID: "C01", Name: "relay",
	Rule: "scripts of 1..N exchanges on one client connection (methods x target forms x header multisets x request framing/size x origin status/framing/size, sequential, pipelined or batched; only the last may ask to close; a probe is appended otherwise; HEAD/304 responses with, without or instead of a length announcing chunked; origins that take 1-30 ms; optionally the client half-closes after its last request; optionally every target is absolute-form https to a TLS origin) through martian.NewProxy() to a raw scripted origin; non-trivial = >=2 exchanges, or a body >= 4097 bytes, or chunked/close-delimited framing, or a repeated header name",
	Gen:  genCase, Run: run, NonTrivial: nontrivial, Classes: classes, Journal: true,
	Gates: map[string]float64{"multi-exchange": 0.40, "pipelined": 0.15, "concurrent-connections": 0.15, "chunked-request": 0.10, "chunked-response": 0.2},
}

func TestRelay(t *testing.T) {
	kit.Assume("only the last exchange of a script asks to close (requests pipelined behind a closing exchange may legitimately be lost)")
	kit.Assume("Expect: 100-continue and Upgrade are not generated; trailer fields are compared only when announced in Trailer: (net/http's reader drops the others) and, for responses, only at HTTP/1.1 clients; chunk extensions are generated, not compared")
	kit.Assume("singleton fields (User-Agent, Authorization, Referer, Cookie, Content-Type, ETag, Content-Language) are never repeated; repeated names are list-valued or extension fields")
	propRelay.Check(t, kit.N(1200, 1500))
}

// ---------------------------------------------------------------- a busy connection outlives the idle timeout

// BusyCase: one connection used steadily for longer than the proxy's timeout.
type BusyCase struct {
	TimeoutMs int  `json:"timeout_ms"`
	GapMs     int  `json:"gap_ms"`
	N         int  `json:"n"`
	Bodies    bool `json:"bodies"`
}

func runBusy(c BusyCase) kit.Verdict {
	v := runBusyOnce(c, 1)
	if len(v) > 0 && !kit.Shrinking() {
		// timing-dependent by nature: re-validate once with everything twice as slow
		if v2 := runBusyOnce(c, 2); len(v2) == 0 {
			kit.Inconclusive("busy-connection")
			return nil
		}
	}
	return v
}

func runBusyOnce(c BusyCase, scale int) (v kit.Verdict) {
	origin := netkit.NewOrigin(func(r *netkit.ReqLog) netkit.Script {
		body := "BODY-" + r.Header.Get("X-Verif-Id")
		return netkit.Script{Raw: []byte(fmt.Sprintf("HTTP/1.1 200 OK\r\nContent-Length: %d\r\n\r\n%s", len(body), body)), CutAt: -1}
	})
	defer origin.Close()
	dialer := &netkit.Dialer{Route: func(string) string { return origin.Addr }}
	p := martian.NewProxy()
	p.SetTimeout(time.Duration(c.TimeoutMs*scale) * time.Millisecond)
	p.SetDial(dialer.Dial)
	pr := netkit.Start(p, nil)
	defer pr.Stop(10 * time.Second)
	cl, err := netkit.Dial(pr.Addr)
	if err != nil {
		return kit.Failf("C01/harness/dial", "%v", err)
	}
	defer cl.Close()
	start := time.Now()
	for i := 0; i < c.N; i++ {
		id := fmt.Sprintf("busy-%d", i)
		req := fmt.Sprintf("GET http://origin.test/%s HTTP/1.1\r\nHost: origin.test\r\nX-Verif-Id: %s\r\n\r\n", id, id)
		if c.Bodies {
			req = fmt.Sprintf("POST http://origin.test/%s HTTP/1.1\r\nHost: origin.test\r\nX-Verif-Id: %s\r\nContent-Length: 5\r\n\r\nhello", id, id)
		}
		if err := cl.Write([]byte(req)); err != nil {
			return kit.Failf("C01/keepalive/busy-connection-older-than-timeout/dropped", "request %d, %v after the connection was opened (proxy timeout %d ms, a request every %d ms): write failed: %v", i, time.Since(start).Round(time.Millisecond), c.TimeoutMs*scale, c.GapMs*scale, err)
		}
		method := "GET"
		if c.Bodies {
			method = "POST"
		}
		res, _, err := cl.ReadResponse(method, kit.T())
		if err != nil || res.Status != 200 || string(res.Body) != "BODY-"+id {
			return kit.Failf("C01/keepalive/busy-connection-older-than-timeout/dropped", "request %d, %v after the connection was opened (proxy timeout %d ms, a request every %d ms, neither side asked to close): %v %+v", i, time.Since(start).Round(time.Millisecond), c.TimeoutMs*scale, c.GapMs*scale, err, res)
		}
		if res.Close {
			return kit.Failf("C01/keepalive/busy-connection-older-than-timeout/close-announced", "response %d carries Connection: close although neither side asked to close", i)
		}
		time.Sleep(time.Duration(c.GapMs*scale) * time.Millisecond)
	}
	return nil
}

var propBusy = &kit.Prop[BusyCase]{
	ID: "C01", Name: "busy-connection", Journal: true,
	Rule: "one keep-alive connection carrying a request every g ms for longer than the proxy's timeout (set with SetTimeout, g well below it): every request is answered and the connection is never closed; non-trivial = total duration exceeds the timeout (always)",
	Gen: func(t *rapid.T) BusyCase {
		c := BusyCase{TimeoutMs: rapid.IntRange(1200, 1800).Draw(t, "timeout_ms"), GapMs: rapid.IntRange(300, 450).Draw(t, "gap_ms"), Bodies: rapid.Bool().Draw(t, "bodies")}
		c.N = c.TimeoutMs/c.GapMs + 2
		return c
	},
	Run: runBusy,
}

func TestBusyConnection(t *testing.T) {
	if kit.Shards() > 1 && kit.Shard()%4 != 0 {
		t.Skip("run by every fourth shard only")
	}
	kit.Assume("the proxy's timeout is an idle/exchange timeout: a connection in steady use (gaps of a quarter of the timeout) is not subject to it")
	propBusy.Check(t, kit.N(2, 3))
}

// ---------------------------------------------------------------- long keep-alive runs

// LongCase: one connection carrying a long run of tiny exchanges, none of which
// asks to close. The exchanges are derived from Seed (kit.Bytes), so the case
// stays small however long the run is.
type LongCase struct {
	N      int    `json:"n"`
	Seed   uint64 `json:"seed"`
	Mode   string `json:"mode"` // seq | bursts | pipe
	Bursts []int  `json:"bursts,omitempty"`
	Shaped bool   `json:"shaped,omitempty"`
}

func (lc LongCase) expand() Case {
	c := Case{Mode: lc.Mode, Bursts: lc.Bursts, Shaped: lc.Shaped}
	if lc.Shaped {
		c.ShapeConfig = shapeDocs[shapeKinds[int(lc.Seed%uint64(len(shapeKinds)))]]
	}
	b := kit.Bytes(lc.Seed, 6*lc.N)
	for i := 0; i < lc.N; i++ {
		d := b[6*i : 6*i+6]
		e := Exchange{
			Method: []string{"GET", "GET", "POST", "PUT", "DELETE", "HEAD", "OPTIONS", "PATCH"}[int(d[0])%8],
			Form:   []string{"origin", "absolute"}[int(d[1])%2],
			Host:   "origin.test", Target: fmt.Sprintf("/k/%d?i=%d", int(d[1])%7, i),
			ReqFrame: "none", Status: []int{200, 200, 201, 204, 404, 304}[int(d[2])%6],
			ResFrame: []string{"cl", "chunked", "none", "cl"}[int(d[3])%4],
		}
		if e.Method == "POST" || e.Method == "PUT" || e.Method == "PATCH" {
			e.ReqFrame = []string{"cl", "chunked"}[int(d[4])%2]
			e.ReqSize, e.ReqSeed = int(d[4])%9, uint64(i+1)
		}
		if !e.bodiless() && e.ResFrame != "none" {
			e.ResSize, e.ResSeed = int(d[5])%9, uint64(i+7)
		} else if e.Method == "HEAD" && e.ResFrame == "cl" {
			e.ResSize = int(d[5])
		}
		if int(d[0])%16 == 9 {
			e.Headers = []Hdr{{"X-Multi", "a"}, {"X-Multi", "b"}}
		}
		c.Exchanges = append(c.Exchanges, e)
	}
	return c
}

var propLong = &kit.Prop[LongCase]{
	ID: "C01", Name: "long-keep-alive-run", Journal: true,
	Rule: "one client connection carrying 99..300 tiny exchanges (mixed methods, bodies of 0..8 bytes, Content-Length/chunked/bodiless answers; run length drawn around 100/128/200/256 and up to 300), none asking to close, one at a time, in pipelined bursts of drawn sizes, or fully pipelined; same oracle per exchange as the relay check, including that no response announces Connection: close; non-trivial = at least 100 exchanges",
	Gen: func(t *rapid.T) LongCase {
		lc := LongCase{Seed: rapid.Uint64Range(1, 1<<30).Draw(t, "seed")}
		if rapid.IntRange(0, 2).Draw(t, "edge") > 0 {
			lc.N = rapid.SampledFrom([]int{100, 101, 128, 129, 200, 201, 256, 257, 300, 127, 255, 199, 99}).Draw(t, "n_edge")
		} else {
			lc.N = 100 + rapid.IntRange(0, 200).Draw(t, "n")
		}
		lc.Mode = rapid.SampledFrom([]string{"seq", "bursts", "bursts", "pipe"}).Draw(t, "mode")
		if lc.Mode == "bursts" {
			lc.Bursts = rapid.SliceOfN(rapid.SampledFrom([]int{2, 3, 7, 16, 33, 50, 64, 99, 100}), 1, 4).Draw(t, "bursts")
		}
		lc.Shaped = rapid.IntRange(0, 5).Draw(t, "shaped") == 0
		return lc
	},
	Run:        func(lc LongCase) kit.Verdict { return run(lc.expand()) },
	NonTrivial: func(lc LongCase) bool { return lc.N >= 100 },
	Classes: func(lc LongCase) []string {
		cl := []string{"mode-" + lc.Mode}
		for _, mark := range []int{100, 128, 200, 256} {
			if lc.N > mark {
				cl = append(cl, fmt.Sprintf("run>%d", mark))
			}
		}
		return cl
	},
}

func TestLongRuns(t *testing.T) {
	propLong.Check(t, kit.N(10, 6))
}

func TestReplay(t *testing.T) { kit.Replay(t, propRelay, propBusy, propLong) }
