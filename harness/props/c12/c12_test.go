// Package c12 decides property C12: a JSON modifier configuration means what
// its tree says, for every tree.
//
// Generated configuration trees (groups, filters of the five kinds, registered
// leaves; arbitrary scopes at every level; optionally one deliberate fault) are
// rendered to JSON, parsed by martian, applied to generated request/response
// pairs and compared with the reference interpreter of package treeref.
// Reconfiguration histories go through martianhttp.Modifier.ServeHTTP.
package c12

import (
	"encoding/json"
	"fmt"
	"io"
	"math"
	"net/http"
	"net/http/httptest"
	"reflect"
	"runtime"
	"strings"
	"sync"
	"sync/atomic"
	"testing"
	"time"

	"github.com/google/martian/v3"
	mlog "github.com/google/martian/v3/log"
	"github.com/google/martian/v3/martianhttp"
	"github.com/google/martian/v3/parse"
	"pgregory.net/rapid"

	// registration of every modifier the trees name
	_ "github.com/google/martian/v3/cookie"
	_ "github.com/google/martian/v3/fifo"
	_ "github.com/google/martian/v3/header"
	_ "github.com/google/martian/v3/martianurl"
	_ "github.com/google/martian/v3/method"
	_ "github.com/google/martian/v3/noop"
	_ "github.com/google/martian/v3/port"
	_ "github.com/google/martian/v3/priority"
	_ "github.com/google/martian/v3/querystring"
	_ "github.com/google/martian/v3/skip"
	_ "github.com/google/martian/v3/status"

	"verifharness/internal/kit"
	"verifharness/internal/netkit"
	tr "verifharness/props/treeref"
)

// inertFromJSON is the parse function of the harness-defined node type
// verif.Inert: what an embedding program (a plug-in, an init function)
// registers with parse.Register. It does nothing on either side.
func inertFromJSON(b []byte) (*parse.Result, error) {
	msg := struct {
		Scope []parse.ModifierType `json:"scope"`
	}{}
	if err := json.Unmarshal(b, &msg); err != nil {
		return nil, err
	}
	return parse.NewResult(martian.Noop("verif.Inert"), msg.Scope)
}

func TestMain(m *testing.M) {
	mlog.SetLevel(mlog.Silent)
	parse.Register(tr.Inert, inertFromJSON)
	kit.Assume("headers named Transfer-Encoding are never generated (the third field-backed header of proxyutil is left to C14)")
	kit.Assume("header names, cookie names/values and query parameters are plain tokens; quoting/escaping rules of net/http are trusted, not explored")
	kit.Main(m, "C12")
}

// ---------------------------------------------------------------- cases

// Pair is one request and the response that answers it. The request side of
// the tree is applied to Req, then the response side to Res (whose request is
// the request as modified).
type Pair struct {
	Req tr.Req `json:"req"`
	Res tr.Res `json:"res"`
}

// Case is one configuration, possibly faulty, and the messages it is applied to.
type Case struct {
	Tree *tr.Node `json:"tree"`
	Cut  int      `json:"cut"`            // >= 0: the JSON text is truncated to Cut/1000 of its length
	Tail string   `json:"tail,omitempty"` // non-whitespace bytes appended after the complete tree ("@self" = the document once more)
	Msgs []Pair   `json:"msgs"`
	// Pad > 0: the document is the tree followed, inside one more fifo group,
	// by inert nodes and one long header value of about Pad bytes in all
	// (documents of many KB, as real configurations are).
	Pad int `json:"pad,omitempty"`
	// Chunked: over HTTP the document is sent without Content-Length.
	Chunked bool `json:"chunked,omitempty"`
}

// tree is the configuration the case stands for (Tree, padded when Pad > 0).
func (c Case) tree() *tr.Node {
	if c.Pad <= 0 {
		return c.Tree
	}
	root := &tr.Node{ID: 600000, T: tr.Fifo, Kids: []*tr.Node{c.Tree}}
	half := c.Pad / 2
	for i := 0; i*48 < half; i++ {
		root.Kids = append(root.Kids, &tr.Node{ID: 600001 + i, T: tr.Noop, P: map[string]string{"name": fmt.Sprintf("inert-%06d", i)}})
	}
	root.Kids = append(root.Kids, &tr.Node{ID: 699999, T: tr.HeaderModifier, P: map[string]string{"name": "X-Verif-Pad", "value": strings.Repeat("x", c.Pad-half)}})
	return root
}

func (c Case) text() []byte {
	b := c.tree().JSON()
	if c.Cut >= 0 {
		n := len(b) * c.Cut / 1000
		if n >= len(b) {
			n = len(b) - 1
		}
		b = b[:n]
	}
	switch c.Tail {
	case "":
	case "@self":
		b = append(append([]byte{}, b...), b...)
	case "@self-newline":
		b = append(append(append([]byte{}, b...), '\n'), b...)
	default:
		b = append(append([]byte{}, b...), c.Tail...)
	}
	return b
}

func (c Case) mustReject() bool { return c.Cut >= 0 || c.Tail != "" || c.Tree.Faulty() }

func (c Case) faultName() string {
	if c.Cut >= 0 {
		return "truncated-json"
	}
	if c.Tail != "" {
		return "trailing-garbage"
	}
	name := ""
	c.Tree.Walk(func(n *tr.Node, _ int) {
		if n.Fault != "" && name == "" {
			name = n.Fault
		}
	})
	return name
}

// ---------------------------------------------------------------- real side

var (
	cloneH       = tr.CloneHTTPHeader
	realRequest  = tr.RealRequest
	realResponse = tr.RealResponse
)

func readRequest(r *http.Request, ctx *martian.Context) tr.Req {
	return tr.Req{Method: r.Method, Scheme: r.URL.Scheme, Host: r.URL.Host, Path: r.URL.Path, Query: r.URL.RawQuery,
		HostH: r.Host, Header: map[string][]string(cloneH(r.Header)), CL: r.ContentLength, Skip: ctx.SkippingRoundTrip()}
}

func readResponse(r *http.Response) tr.Res {
	return tr.Res{Status: r.StatusCode, Header: map[string][]string(cloneH(r.Header)), CL: r.ContentLength}
}

func flatten(err error) []string {
	if err == nil {
		return nil
	}
	if me, ok := err.(*martian.MultiError); ok {
		var out []string
		for _, e := range me.Errors() {
			out = append(out, flatten(e)...)
		}
		return out
	}
	return []string{tr.ErrKeyOf(err.Error())}
}

func js(v interface{}) string {
	b, _ := json.Marshal(v)
	return string(b)
}

func normReq(r *tr.Req) tr.Req {
	c := *r.Clone()
	c.Wire = "" // the spelling on the request line is input, not part of what is compared
	return c
}

func normRes(r *tr.Res) tr.Res {
	c := *r.Clone()
	c.Req = nil
	return c
}

// applyPair runs one pair through the real modifiers and through the
// reference evaluation of tree (nil tree = nothing configured) and compares.
func applyPair(where string, tree *tr.Node, reqmod martian.RequestModifier, resmod martian.ResponseModifier, p Pair) kit.Verdict {
	var v kit.Verdict
	in := &tr.Interp{}

	wantReq := p.Req.Clone()
	var wantReqErr, wantResErr []string
	if tree != nil {
		wantReqErr = in.Request(tree, wantReq)
	}
	wantRes := p.Res.Clone()
	wantRes.Req = wantReq
	reqAfterReqSide := normReq(wantReq)
	if tree != nil {
		wantResErr = in.Response(tree, wantRes)
	}

	req := realRequest(&p.Req)
	ctx, remove, err := martian.TestContext(req, nil, nil)
	if err != nil {
		panic(err)
	}
	defer remove()
	var gotReqErr, gotResErr error
	if reqmod != nil {
		gotReqErr = reqmod.ModifyRequest(req)
	}
	gotReq := readRequest(req, ctx)
	res := realResponse(&p.Res, req)
	if resmod != nil {
		gotResErr = resmod.ModifyResponse(res)
	}
	gotRes := readResponse(res)

	if !reflect.DeepEqual(gotReq, reqAfterReqSide) {
		what := "message-differs"
		if !reflect.DeepEqual(gotReq.Header["X-Verif-Trace"], reqAfterReqSide.Header["X-Verif-Trace"]) {
			what = "evaluation-trace-differs"
		}
		v.Addf("C12/"+where+"/request/"+what, "request after the request side: got %s, the tree says %s", js(gotReq), js(reqAfterReqSide))
	}
	if w := normRes(wantRes); !reflect.DeepEqual(gotRes, w) {
		what := "message-differs"
		if !reflect.DeepEqual(gotRes.Header["X-Verif-Trace"], w.Header["X-Verif-Trace"]) {
			what = "evaluation-trace-differs"
		}
		v.Addf("C12/"+where+"/response/"+what, "response after the response side: got %s, the tree says %s", js(gotRes), js(w))
	}
	if g, w := tr.SortedKeys(flatten(gotReqErr)), tr.SortedKeys(wantReqErr); !reflect.DeepEqual(g, w) || (len(w) > 0) != (gotReqErr != nil) {
		v.Addf("C12/"+where+"/request/errors-differ", "request side returned %v (%v), the tree says errors %v", gotReqErr, g, w)
	}
	if g, w := tr.SortedKeys(flatten(gotResErr)), tr.SortedKeys(wantResErr); !reflect.DeepEqual(g, w) || (len(w) > 0) != (gotResErr != nil) {
		v.Addf("C12/"+where+"/response/errors-differ", "response side returned %v (%v), the tree says errors %v", gotResErr, g, w)
	}
	return v
}

// parseBounded is parse.FromJSON under the liveness bound: a parse that does
// not return is a verdict, never a wedged test process.
func parseBounded(check string, c Case) (r *parse.Result, err error, v kit.Verdict) {
	if !bounded(check, func() { r, err = parse.FromJSON(c.text()) }) {
		registryStuck.Store(true)
		shape := "valid-tree"
		if c.mustReject() {
			shape = c.faultName()
		}
		return nil, nil, kit.Failf("C12/parse/"+shape+"/call-does-not-return", "parse.FromJSON did not return within %v: %s", 3*kit.T(), short(c.text()))
	}
	return r, err, nil
}

func runTree(c Case) kit.Verdict {
	if registryStuck.Load() {
		return nil // see registryStuck
	}
	r, err, hung := parseBounded("tree", c)
	if hung != nil {
		return hung
	}
	if c.mustReject() {
		if err == nil {
			return kit.Failf("C12/reject/"+c.faultName()+"/configuration-accepted", "configuration with fault %q was accepted: %s", c.faultName(), c.text())
		}
		return nil
	}
	if err != nil {
		return kit.Failf("C12/parse/valid-tree/rejected", "valid configuration rejected with %v: %s", err, c.text())
	}
	var v kit.Verdict
	for i, p := range c.Msgs {
		for _, f := range applyPair("eval", c.Tree, r.RequestModifier(), r.ResponseModifier(), p) {
			v.Addf(f.Sig, "message %d: %s\nconfiguration: %s", i, f.Msg, c.text())
		}
	}
	return v
}

// ---------------------------------------------------------------- shape statistics

func isErrLeaf(n *tr.Node) bool {
	if n.T != tr.HeaderAppend && n.T != tr.HeaderModifier {
		return false
	}
	k := http.CanonicalHeaderKey(n.P["name"])
	return k == "Content-Length" || k == "Host"
}

func scopeKey(n *tr.Node) string {
	if !n.HasScope {
		return "absent"
	}
	return "[" + strings.Join(tr.SortedKeys(n.Scope), ",") + "]"
}

type shape struct {
	depth          int
	mixedScopes    bool
	errUnderAgg    bool
	prioTie        bool
	emptyScope     bool
	filters        map[string]bool
	hasElse        bool
	singleSideLeaf bool
	widePrio       bool // a priority group with 13 or more entries acting on one side and a tie among them
	hugePrio       bool // two entries of one priority group differ and both lie beyond +-2^53
	prioOmitted    bool // a priority entry without the "priority" key that follows an entry with a non-zero priority
}

func shapeOf(root *tr.Node) shape {
	s := shape{filters: map[string]bool{}}
	var rec func(n *tr.Node, d int, scopes []string, underAgg bool)
	rec = func(n *tr.Node, d int, scopes []string, underAgg bool) {
		if n == nil {
			return
		}
		if d > s.depth {
			s.depth = d
		}
		if n.HasScope {
			k := scopeKey(n)
			for _, o := range scopes {
				if o != k {
					s.mixedScopes = true
				}
			}
			scopes = append(append([]string{}, scopes...), k)
			if len(n.Scope) == 0 {
				s.emptyScope = true
			}
		}
		if isErrLeaf(n) && underAgg {
			s.errUnderAgg = true
		}
		if !tr.IsGroup(n.T) && !tr.IsFilter(n.T) && tr.Supports(n.T, tr.Request) != tr.Supports(n.T, tr.Response) {
			s.singleSideLeaf = true
		}
		if n.T == tr.Priority {
			for i := range n.Kids {
				if i > 0 && i < len(n.NoPrio) && n.NoPrio[i] && n.PrioOf(i-1) != 0 {
					s.prioOmitted = true
				}
			}
			for i := range n.Kids {
				for j := range n.Kids {
					a, b := n.PrioOf(i), n.PrioOf(j)
					if a != b && (a >= 1<<53 || a <= -(1<<53)) && (b >= 1<<53 || b <= -(1<<53)) {
						s.hugePrio = true
					}
				}
			}
			for _, side := range []tr.Side{tr.Request, tr.Response} {
				acting, tie, seenP := 0, false, map[int]bool{}
				for i, k := range n.Kids {
					if k.Acts(side) {
						acting++
						tie = tie || seenP[n.PrioOf(i)]
						seenP[n.PrioOf(i)] = true
					}
				}
				if acting >= 13 && tie {
					s.widePrio = true
				}
			}
			seen := map[int]bool{}
			for _, p := range n.Prio {
				if seen[p] {
					s.prioTie = true
				}
				seen[p] = true
			}
		}
		if tr.IsFilter(n.T) {
			s.filters[n.T] = true
			if n.Else != nil {
				s.hasElse = true
			}
		}
		agg := underAgg || (n.T == tr.Fifo && n.Agg)
		for _, k := range n.Kids {
			rec(k, d+1, scopes, agg)
		}
		rec(n.Then, d+1, scopes, agg)
		rec(n.Else, d+1, scopes, agg)
	}
	rec(root, 1, nil, false)
	return s
}

func nontrivial(c Case) bool {
	s := shapeOf(c.Tree)
	return s.depth >= 3 || s.mixedScopes || s.errUnderAgg || s.prioTie
}

// refStats runs the reference on the case's messages to learn what the run
// exercises (branches taken, errors reported).
func refStats(tree *tr.Node, msgs []Pair) (condTrue, condFalse, errs, multiErrs bool) {
	in := &tr.Interp{Branches: map[int]string{}}
	for _, p := range msgs {
		rq := p.Req.Clone()
		e1 := in.Request(tree, rq)
		rs := p.Res.Clone()
		rs.Req = rq
		e2 := in.Response(tree, rs)
		errs = errs || len(e1) > 0 || len(e2) > 0
		multiErrs = multiErrs || len(e1) > 1 || len(e2) > 1
	}
	for _, b := range in.Branches {
		condTrue = condTrue || strings.Contains(b, "T")
		condFalse = condFalse || strings.Contains(b, "F")
	}
	return
}

func appendOnce(cl []string, x string) []string {
	for _, y := range cl {
		if y == x {
			return cl
		}
	}
	return append(cl, x)
}

func classes(c Case) []string {
	var cl []string
	s := shapeOf(c.Tree)
	if s.depth >= 3 {
		cl = append(cl, "depth>=3")
	}
	if s.depth >= 5 {
		cl = append(cl, "depth>=5")
	}
	if s.mixedScopes {
		cl = append(cl, "mixed-scopes-on-path")
	}
	if s.errUnderAgg {
		cl = append(cl, "err-under-aggregate")
	}
	if s.prioTie {
		cl = append(cl, "priority-tie")
	}
	if s.emptyScope {
		cl = append(cl, "empty-scope")
	}
	if s.prioOmitted {
		cl = append(cl, "priority-key-omitted-after-nonzero")
	}
	if s.hugePrio {
		cl = append(cl, "priorities-beyond-2^53")
	}
	c.Tree.Walk(func(n *tr.Node, _ int) {
		if n.T == tr.URLFilter && strings.Contains(n.P["host"], ":") {
			for _, m := range c.Msgs {
				if tr.HostMatch(m.Req.Host, n.P["host"]) {
					cl = appendOnce(cl, "url-filter-host-with-port-or-v6-literal-and-matching-request")
				}
			}
		}
	})
	if s.widePrio {
		cl = append(cl, "priority-group>=13-entries-with-tie")
		if s.depth >= 3 {
			cl = append(cl, "wide-priority-group-in-deeper-tree")
		}
	}
	if s.hasElse {
		cl = append(cl, "else-present")
	}
	if s.singleSideLeaf {
		cl = append(cl, "single-sided-leaf")
	}
	for _, k := range []string{tr.URLFilter, tr.HeaderFilter, tr.QueryFilter, tr.MethodFilter, tr.CookieFilter} {
		if s.filters[k] {
			cl = append(cl, "filter:"+k)
		}
	}
	if c.mustReject() {
		cl = append(cl, "rejected", "fault:"+c.faultName())
		return cl
	}
	ct, cf, e, me := refStats(c.Tree, c.Msgs)
	if ct {
		cl = append(cl, "cond-true")
	}
	if cf {
		cl = append(cl, "cond-false")
	}
	if e {
		cl = append(cl, "error-reported")
	}
	if me {
		cl = append(cl, "several-errors-aggregated")
	}
	return cl
}

// ---------------------------------------------------------------- generators

var (
	pick        = tr.Pick
	uni         = tr.Uni
	genScope    = tr.GenScope
	hdrNames    = tr.HdrNames
	vals        = tr.Vals
	qNames      = tr.QNames
	hosts       = tr.Hosts
	paths       = tr.Paths
	schemes     = tr.Schemes
	cookieNames = tr.CookieNames
)

// hugeBases + {0,1,2}: 2^53 (where float64 stops being exact), a nanosecond
// timestamp, the top and the bottom of int64, a large negative value.
var hugeBases = []int{1 << 53, 1700000000123456789, math.MaxInt64 - 2, math.MinInt64, -(1 << 53) - 2, 1<<62 + 1}

type gen struct {
	t        *rapid.T
	next     int
	maxDepth int
	maxWidth int
	underAgg int // > 0 while generating below an aggregating group: more error leaves
}

func (g *gen) id() int { g.next++; return g.next }

func (g *gen) leaf() *tr.Node {
	t := g.t
	n := &tr.Node{ID: g.id(), P: map[string]string{}}
	k := uni(t, "leaf", 100)
	if g.underAgg > 0 && k < 20 {
		k = 58 + k%10 // unique-token error leaf
	}
	switch {
	case k < 38: // probe: append-only trace
		n.T = tr.HeaderAppend
		n.P["name"], n.P["value"] = "X-Verif-Trace", fmt.Sprintf("t%d", n.ID)
	case k < 47:
		n.T = tr.HeaderModifier
		n.P["name"], n.P["value"] = pick(t, "hname", hdrNames), pick(t, "hval", vals)
	case k < 52:
		n.T = tr.HeaderAppend
		n.P["name"], n.P["value"] = pick(t, "hname", hdrNames), pick(t, "hval", vals)
	case k < 58:
		n.T = tr.HeaderBlacklist
		n.P = nil
		n.Names = rapid.SliceOfN(rapid.SampledFrom(append([]string{"Cookie", "Set-Cookie", "Content-Length"}, hdrNames...)), 1, 2).Draw(t, "names")
	case k < 68: // error leaf with a unique token
		n.T = tr.HeaderModifier
		n.P["name"], n.P["value"] = "Content-Length", fmt.Sprintf("e%dx", n.ID)
	case k < 72: // errors when a positive length is set, else sets it
		n.T = tr.HeaderAppend
		n.P["name"], n.P["value"] = pick(t, "clname", []string{"Content-Length", "content-length"}), "7"
	case k < 75: // errors on requests that have a host
		n.T = tr.HeaderAppend
		n.P["name"], n.P["value"] = "Host", "h.example.com"
	case k < 80:
		n.T = tr.QueryModifier
		n.P["name"], n.P["value"] = pick(t, "qname", qNames), pick(t, "qval", vals)
	case k < 85:
		n.T = tr.URLModifier
		if rapid.Bool().Draw(t, "uscheme") {
			n.P["scheme"] = pick(t, "scheme", schemes)
		}
		if rapid.Bool().Draw(t, "uhost") {
			n.P["host"] = pick(t, "host", hosts)
		}
		if rapid.Bool().Draw(t, "upath") {
			n.P["path"] = pick(t, "path", paths)
		}
		if rapid.Bool().Draw(t, "uquery") {
			n.P["query"] = pick(t, "qname", qNames) + "=" + pick(t, "qval", vals)
		}
	case k < 89:
		n.T = tr.StatusModifier
		n.P = nil
		n.N = []int{200, 404, 500}[uni(t, "code", 3)]
	case k < 94:
		n.T = tr.CookieModifier
		n.P["name"], n.P["value"] = pick(t, "cname", cookieNames), pick(t, "cval", vals)
	case k < 95:
		n.T = tr.Noop
		n.P["name"] = "inert"
	case k < 96:
		n.T, n.P = tr.Inert, nil
	case k < 98:
		n.T, n.P = tr.PortModifier, nil
		n.N = []int{80, 8080}[uni(t, "port", 2)]
	default:
		n.T = tr.SkipRoundTrip
		n.P = nil
	}
	genScope(t, n)
	return n
}

func (g *gen) filter(depth int) *tr.Node {
	t := g.t
	n := &tr.Node{ID: g.id(), P: map[string]string{}}
	tr.GenFilterCond(t, n)
	if n.T == tr.URLFilter && uni(t, "portedpattern", 3) == 0 {
		// an authority with a port / a bracketed IPv6 literal as the host to match
		n.P["host"] = pick(t, "ppat", []string{"example.com:8080", "*.example.com:8080", "[::1]:8080"})
	}
	n.Then = g.node(depth + 1)
	if uni(t, "else", 3) > 0 {
		n.Else = g.node(depth + 1)
	}
	genScope(t, n)
	return n
}

func (g *gen) node(depth int) *tr.Node {
	t := g.t
	if depth >= g.maxDepth {
		return g.leaf()
	}
	k := uni(t, "kind", 100)
	if depth == 1 && k < 30 {
		k = 30 + k*2 // a bare leaf as the whole configuration is drawn through maxdepth 1 only
	}
	switch {
	case k < 30:
		return g.leaf()
	case k < 55:
		n := &tr.Node{ID: g.id(), T: tr.Fifo, Agg: rapid.Bool().Draw(t, "agg")}
		w := uni(t, "width", g.maxWidth+1)
		if n.Agg {
			g.underAgg++
		}
		for i := 0; i < w; i++ {
			n.Kids = append(n.Kids, g.node(depth+1))
		}
		if n.Agg {
			g.underAgg--
		}
		genScope(t, n)
		return n
	case k < 72:
		n := &tr.Node{ID: g.id(), T: tr.Priority}
		w := uni(t, "width", g.maxWidth+1)
		// 1 priority group in 6 is wide: 13..40 leaf entries over few distinct
		// priorities (long runs of equals whose order is the tie rule), at
		// whatever depth the group sits
		wide := uni(t, "wideprio", 6) == 0
		if wide {
			w = 13 + uni(t, "widewidth", 28)
		}
		// 1 group in 4 uses priorities of 64-bit size (ids, nanosecond
		// timestamps): all its entries sit within 0..2 of one base, so that
		// neighbours differ by less than anything but exact integer
		// comparison can tell apart - higher and lower ones in any listed order.
		huge := uni(t, "hugeprio", 4) == 0
		base := hugeBases[uni(t, "hugebase", len(hugeBases))]
		for i := 0; i < w; i++ {
			if wide {
				n.Kids = append(n.Kids, g.leaf())
			} else {
				n.Kids = append(n.Kids, g.node(depth+1))
			}
			if huge && uni(t, "hugeentry", 5) > 0 {
				n.Prio = append(n.Prio, base+uni(t, "hugeoff", 3))
			} else {
				n.Prio = append(n.Prio, uni(t, "prio", 4)-1)
			}
			// 1 entry in 4 omits the "priority" key altogether (legal: priority 0)
			omit := uni(t, "noprio", 4) == 0
			n.NoPrio = append(n.NoPrio, omit)
			if omit {
				n.Prio[i] = 0
			}
		}
		genScope(t, n)
		return n
	default:
		return g.filter(depth)
	}
}

func genPair(t *rapid.T) Pair {
	rq, rs := tr.GenPair(t)
	if uni(t, "portedhost", 5) == 0 {
		// authority with a port, also on a bracketed IPv6 literal
		rq.Host = pick(t, "phost", []string{"example.com:8080", "a.example.com:8080", "[::1]:8080", "example.com:8080"})
		if rq.HostH != "" {
			rq.HostH = rq.Host
		}
	}
	if uni(t, "wirepath", 4) == 0 {
		// the request line spells the path differently from Go's canonical escaping
		w := tr.WirePaths[uni(t, "wirespelling", len(tr.WirePaths))]
		rq.Wire, rq.Path = w[0], w[1]
	}
	return Pair{Req: rq, Res: rs}
}

// trailingGarbage: what may follow a complete valid document to make the
// text as a whole malformed JSON.
var trailingGarbage = []string{"}", " }", "]", ",", "{}", "\n{}", " null", "x", "\n\ttrailing text", "\"\"", "0", "@self", "@self-newline"}

// injectFault marks one node of the tree (or cuts the text) so that the
// configuration must be rejected.
func injectFault(t *rapid.T, c *Case) {
	kind := pick(t, "fault", []string{tr.FaultUnknownName, tr.FaultScopeUnsupported, tr.FaultScopeUnsupported, tr.FaultScopeInvalid, tr.FaultTwoKeys, tr.FaultNoModifier, tr.FaultNoModifier, "cut", "tail", "tail"})
	if kind == "tail" {
		// a complete, valid tree followed by something that is not whitespace
		c.Tail = pick(t, "tail", trailingGarbage)
		return
	}
	if kind == "cut" {
		c.Cut = uni(t, "cut", 1000)
		return
	}
	var nodes, single, holders []*tr.Node
	c.Tree.Walk(func(n *tr.Node, _ int) {
		nodes = append(nodes, n)
		if tr.IsFilter(n.T) || (n.T == tr.Priority && len(n.Kids) > 0) {
			holders = append(holders, n)
		}
		if tr.Supports(n.T, tr.Request) != tr.Supports(n.T, tr.Response) {
			single = append(single, n)
		}
	})
	if kind == tr.FaultScopeUnsupported {
		if len(single) == 0 {
			kind = tr.FaultUnknownName
		} else {
			nodes = single
		}
	}
	if kind == tr.FaultNoModifier {
		if len(holders) == 0 {
			kind = tr.FaultUnknownName
		} else {
			nodes = holders
		}
	}
	n := nodes[uni(t, "faultnode", len(nodes))]
	n.Fault = kind
	if kind == tr.FaultScopeInvalid {
		n.FaultAt = uni(t, "invalidvariant", 3)
	}
	if kind == tr.FaultScopeUnsupported {
		// the unsupported kind alone, after / before the supported one, twice, ...
		n.FaultAt = uni(t, "scopevariant", len(tr.ScopeUnsupportedVariants))
	}
	if kind == tr.FaultNoModifier && n.T == tr.Priority {
		n.FaultAt = uni(t, "faultat", len(n.Kids)) // any entry, also one that follows a complete entry
	}
}

func genTree(t *rapid.T) *tr.Node {
	g := &gen{t: t, maxDepth: 1 + uni(t, "maxdepth", kit.N(4, 6)), maxWidth: kit.N(4, 6)}
	return g.node(1)
}

func genCase(t *rapid.T) Case {
	c := Case{Tree: genTree(t), Cut: -1}
	if uni(t, "faulty", 5) == 0 {
		injectFault(t, &c)
	}
	n := 4
	if c.mustReject() {
		n = 0
	}
	for i := 0; i < n; i++ {
		c.Msgs = append(c.Msgs, genPair(t))
	}
	// a url.Filter whose host carries a port gets, 3 times in 4, a first
	// request of exactly such an authority (a condition that can hold)
	if n > 0 {
		c.Tree.Walk(func(x *tr.Node, _ int) {
			if x.T == tr.URLFilter && strings.Contains(x.P["host"], ":") && c.Msgs[0].Req.Wire != "-" {
				if uni(t, "matchported", 4) > 0 {
					h := strings.Replace(x.P["host"], "*", "a", -1)
					c.Msgs[0].Req.Host = h
					if c.Msgs[0].Req.HostH != "" {
						c.Msgs[0].Req.HostH = h
					}
				}
			}
		})
	}
	return c
}

var treeRule = "configuration trees over fifo.Group / priority.Group / url,header,querystring,method,cookie filters (with and without else) / registered leaves (trace probes, header set/append/delete on headers the conditions read, error leaves, request-only and response-only leaves), scope drawn at every node from {absent,[request],[response],both,[]}, 1 priority entry in 4 without a priority key, 1 priority group in 6 with 13..40 leaf entries over few distinct priorities, 1 priority group in 4 with 64-bit-sized priorities (2^53, timestamps, MaxInt64, MinInt64 +0..2), a kind named twice in a scope, depth <= 4|6, width <= 4|6; 1 in 5 carries one fault (unknown name, unsupported scope, invalid scope string, two keys, a filter or priority entry without modifier, truncated text, non-whitespace bytes after the complete tree) and must be rejected; valid ones are applied to 4 request/response pairs and compared with the reference interpreter (final message, returned errors as a multiset); non-trivial = depth >= 3, or differing scopes on a root-to-leaf path, or an error leaf under an aggregating group, or a priority tie"

var propTree = &kit.Prop[Case]{
	ID: "C12", Name: "tree", Rule: "rapid-drawn " + treeRule,
	Gen: genCase, Run: runTree, NonTrivial: nontrivial, Classes: classes,
	Gates: map[string]float64{
		"depth>=3": 0.30, "mixed-scopes-on-path": 0.10, "err-under-aggregate": 0.04, "priority-tie": 0.08, "priority-key-omitted-after-nonzero": 0.04, "priorities-beyond-2^53": 0.03, "url-filter-host-with-port-or-v6-literal-and-matching-request": 0.02, "priority-group>=13-entries-with-tie": 0.03,
		"cond-true": 0.20, "cond-false": 0.20, "rejected": 0.10, "error-reported": 0.10, "else-present": 0.20,
	},
}

func TestTree(t *testing.T) { propTree.Check(t, kit.N(6000, 40000)) }

// ---------------------------------------------------------------- bounded exhaustive sub-space

// TestEnum enumerates every two-level tree: root in {fifo, aggregating fifo,
// priority with distinct priorities, priority with a tie} x root scope (5) x
// two children, each one of {probe, error leaf, header filter with then/else
// probes} x child scope (5); applied to a pair where the filter condition
// holds on the request and fails on the response, and one the other way round.
var propEnum = &kit.Prop[Case]{
	ID: "C12", Name: "enum-two-level",
	Rule: "ALL two-level trees: 9 root kinds (fifo, aggregating fifo, priority 1/2, priority tie, priority 2/key omitted, priority key omitted/-1, priority 2^53+1/2^53, priority 5/MaxInt64, priority timestamps one apart) x 5 root scopes x (3 child shapes x 5 child scopes)^2 = 10125 configurations, each on 2 message pairs (filter condition true/false per side); non-trivial = same rule as the tree check",
	Run:  runTree, NonTrivial: nontrivial, Classes: classes,
}

func scopeOption(i int) (bool, []string) {
	switch i {
	case 1:
		return true, []string{"request"}
	case 2:
		return true, []string{"response"}
	case 3:
		return true, []string{"request", "response"}
	case 4:
		return true, []string{}
	}
	return false, nil
}

func enumChild(shape, scope, id int) *tr.Node {
	var n *tr.Node
	probe := func(id int) *tr.Node {
		return &tr.Node{ID: id, T: tr.HeaderAppend, P: map[string]string{"name": "X-Verif-Trace", "value": fmt.Sprintf("t%d", id)}}
	}
	switch shape {
	case 0:
		n = probe(id)
	case 1:
		n = &tr.Node{ID: id, T: tr.HeaderModifier, P: map[string]string{"name": "Content-Length", "value": fmt.Sprintf("e%dx", id)}}
	default:
		n = &tr.Node{ID: id, T: tr.HeaderFilter, P: map[string]string{"name": "X-A", "value": "1"}, Then: probe(id + 1), Else: probe(id + 2)}
	}
	n.HasScope, n.Scope = scopeOption(scope)
	return n
}

func TestEnum(t *testing.T) {
	msgs := []Pair{
		{Req: tr.Req{Method: "GET", Scheme: "http", Host: "example.com", Path: "/", HostH: "example.com", Header: map[string][]string{"X-A": {"1"}}},
			Res: tr.Res{Status: 200, Header: map[string][]string{"X-A": {"2"}}}},
		{Req: tr.Req{Method: "GET", Scheme: "http", Host: "example.com", Path: "/", HostH: "example.com", Header: map[string][]string{}},
			Res: tr.Res{Status: 200, Header: map[string][]string{"X-A": {"2", "1"}}}},
	}
	propEnum.Enumerate(t, func(yield func(Case) bool) {
		for root := 0; root < 9; root++ {
			for rs := 0; rs < 5; rs++ {
				for a := 0; a < 15; a++ {
					for b := 0; b < 15; b++ {
						n := &tr.Node{ID: 1}
						switch root {
						case 0:
							n.T = tr.Fifo
						case 1:
							n.T, n.Agg = tr.Fifo, true
						case 2:
							n.T, n.Prio = tr.Priority, []int{1, 2}
						case 3:
							n.T, n.Prio = tr.Priority, []int{1, 1}
						case 4: // second entry has no "priority" key: 0, runs after the first
							n.T, n.Prio, n.NoPrio = tr.Priority, []int{2, 0}, []bool{false, true}
						case 5: // first entry has no "priority" key: 0, runs before the second (-1)
							n.T, n.Prio, n.NoPrio = tr.Priority, []int{0, -1}, []bool{true, false}
						case 6: // neighbours beyond 2^53, the higher one listed first
							n.T, n.Prio = tr.Priority, []int{1<<53 + 1, 1 << 53}
						case 7: // the largest priority runs first
							n.T, n.Prio = tr.Priority, []int{5, math.MaxInt64}
						case 8: // nanosecond timestamps one apart, the higher one listed first
							n.T, n.Prio = tr.Priority, []int{1700000000123456790, 1700000000123456789}
						}
						n.HasScope, n.Scope = scopeOption(rs)
						n.Kids = []*tr.Node{enumChild(a/5, a%5, 10), enumChild(b/5, b%5, 20)}
						if !yield(Case{Tree: n, Cut: -1, Msgs: msgs}) {
							return
						}
					}
				}
			}
		}
	})
}

// ---------------------------------------------------------------- reconfiguration histories

// Step is either a POST of a configuration to the configuration endpoint or
// the evaluation of a message pair against whatever is active.
type Step struct {
	Post *Case `json:"post,omitempty"` // Msgs unused
	Eval *Pair `json:"eval,omitempty"`
	Reg  bool  `json:"reg,omitempty"` // the embedding program calls parse.Register (legal at any time: the registry is locked)
}

// registryStuck is set once a step did not return: the parse registry is
// process-wide, a configuration call that hangs on it takes every later one
// with it. What follows in this process can no longer be judged.
var registryStuck atomic.Bool

// bounded runs f and waits for it: T, then once more up to 3T in total.
func bounded(check string, f func()) bool {
	done := make(chan struct{})
	go func() { defer close(done); f() }()
	select {
	case <-done:
		return true
	case <-time.After(kit.T()):
	}
	select {
	case <-done:
		kit.Inconclusive(check)
		return true
	case <-time.After(2 * kit.T()):
		return false
	}
}

// History is a reconfiguration history through martianhttp.Modifier.
type History struct {
	Steps []Step `json:"steps"`
	// HTTP: the documents are POSTed over a real HTTP connection to a server
	// whose handler is the martianhttp.Modifier (as a proxy's API server is).
	HTTP bool `json:"http,omitempty"`
}

// short abbreviates long documents in failure messages.
func short(b []byte) string {
	if len(b) <= 1200 {
		return string(b)
	}
	return fmt.Sprintf("%s ... [%d bytes] ... %s", b[:800], len(b), b[len(b)-300:])
}

// hideLen hides the length of the reader so that net/http sends it chunked.
type hideLen struct{ io.Reader }

func runHistory(h History) kit.Verdict {
	if registryStuck.Load() {
		return nil // see registryStuck: the first such history is the finding
	}
	m := martianhttp.NewModifier()
	// post delivers one document: in memory, or over a real connection
	post := func(c *Case) (int, string, error) {
		rw := httptest.NewRecorder()
		m.ServeHTTP(rw, httptest.NewRequest("POST", "/configure", strings.NewReader(string(c.text()))))
		return rw.Code, rw.Body.String(), nil
	}
	if h.HTTP {
		l, err := netkit.Listen()
		if err != nil {
			panic(err)
		}
		srv := &http.Server{Handler: m}
		go srv.Serve(l)
		defer srv.Close()
		client := &http.Client{Transport: &http.Transport{}, Timeout: 4 * kit.T()}
		defer client.CloseIdleConnections()
		post = func(c *Case) (int, string, error) {
			var body io.Reader = strings.NewReader(string(c.text()))
			if c.Chunked {
				body = hideLen{body}
			}
			res, err := client.Post("http://"+l.Addr().String()+"/configure", "application/json", body)
			if err != nil {
				return 0, "", err
			}
			defer res.Body.Close()
			b, _ := io.ReadAll(io.LimitReader(res.Body, 4096))
			return res.StatusCode, string(b), nil
		}
	}
	var active *tr.Node
	var activeText []byte
	var v kit.Verdict
	unknownRejected := false // a document naming an unknown modifier was rejected earlier in this history
	shape := func() string {
		if unknownRejected {
			return "after-rejected-unknown-modifier"
		}
		return "any-time"
	}
	for i, st := range h.Steps {
		switch {
		case st.Reg:
			if !bounded("reconfigure", func() { parse.Register(tr.Inert, inertFromJSON) }) {
				registryStuck.Store(true)
				return kit.Failf("C12/reconfigure/register-"+shape()+"/call-does-not-return", "step %d: parse.Register of a harness-defined node type did not return within %v; history so far: %s", i, 3*kit.T(), js(h.Steps[:i+1]))
			}
		case st.Post != nil:
			var rw struct {
				Code int
				Body string
			}
			var perr error
			if !bounded("reconfigure", func() { rw.Code, rw.Body, perr = post(st.Post) }) {
				registryStuck.Store(true)
				return kit.Failf("C12/reconfigure/post-"+shape()+"/call-does-not-return", "step %d: POST did not return within %v: %s", i, 3*kit.T(), st.Post.text())
			}
			if perr != nil {
				return kit.Failf("C12/reconfigure/http/post-failed", "step %d: POST over HTTP: %v", i, perr)
			}
			if st.Post.mustReject() && st.Post.faultName() == tr.FaultUnknownName && st.Post.Cut < 0 && st.Post.Tail == "" {
				unknownRejected = true
			}
			if st.Post.mustReject() {
				if rw.Code < 400 || rw.Code > 499 {
					v.Addf("C12/reconfigure/"+st.Post.faultName()+"/faulty-post-not-refused", "step %d: POST of a configuration with fault %q answered %d: %s", i, st.Post.faultName(), rw.Code, short(st.Post.text()))
					// what is active now is undefined: stop
					return v
				}
			} else {
				if rw.Code < 200 || rw.Code > 299 {
					shape := "valid-post"
					if h.HTTP {
						shape = "valid-post-over-http"
					}
					v.Addf("C12/reconfigure/"+shape+"/refused", "step %d: POST of a valid configuration (%d bytes, chunked=%v) answered %d %q: %s", i, len(st.Post.text()), st.Post.Chunked, rw.Code, rw.Body, short(st.Post.text()))
					return v
				}
				active, activeText = st.Post.tree(), st.Post.text()
			}
		case st.Eval != nil:
			where := "reconfigure/after-accepted-post"
			if i > 0 && h.Steps[i-1].Post != nil && h.Steps[i-1].Post.mustReject() {
				where = "reconfigure/after-rejected-post"
			}
			for _, f := range applyPair(where, active, m, m, *st.Eval) {
				v.Addf(f.Sig, "step %d: %s\nactive configuration: %s", i, short([]byte(f.Msg)), short(activeText))
			}
			if len(v) > 0 {
				return v
			}
		}
	}
	return v
}

// regStats: a Register call after a rejected document naming an unknown
// modifier, followed by a valid document.
func regStats(h History) (regs int, regAfterUnknownThenValid bool) {
	unknown, regAfter := false, false
	for _, st := range h.Steps {
		switch {
		case st.Reg:
			regs++
			regAfter = regAfter || unknown
		case st.Post != nil && st.Post.mustReject():
			if st.Post.Cut < 0 && st.Post.Tail == "" && st.Post.faultName() == tr.FaultUnknownName {
				unknown = true
			}
		case st.Post != nil:
			regAfterUnknownThenValid = regAfterUnknownThenValid || regAfter
		}
	}
	return
}

func histStats(h History) (posts, rejected, evalAfterReject, replaced int) {
	accepted := 0
	for i, st := range h.Steps {
		if st.Post != nil {
			posts++
			if st.Post.mustReject() {
				rejected++
			} else {
				accepted++
				if accepted > 1 {
					replaced++
				}
			}
		}
		if st.Eval != nil && i > 0 && h.Steps[i-1].Post != nil && h.Steps[i-1].Post.mustReject() && accepted > 0 {
			evalAfterReject++
		}
	}
	return
}

// genHistory draws a reconfiguration history; wire = delivered over HTTP,
// with documents padded to sizes around and far beyond a server's 4 KB read buffer.
func genHistory(t *rapid.T, wire bool) History {
	h := History{HTTP: wire}
	n := 2 + uni(t, "steps", kit.N(11, 19))
	// Register calls are drawn only once a document naming an unknown
	// modifier has been rejected in this same history: a call that hangs is
	// then always preceded, in its own history, by what can make it hang,
	// and the saved case reproduces in a fresh process (the registry is
	// process-wide and earlier cases also parse unknown names).
	unknown := false
	post := func(faulty bool) *Case {
		g := &gen{t: t, maxDepth: 1 + uni(t, "maxdepth", 3), maxWidth: 3}
		c := Case{Tree: g.node(1), Cut: -1}
		if faulty {
			injectFault(t, &c)
		}
		if wire {
			c.Chunked = uni(t, "chunked", 3) == 0
			if uni(t, "padded", 4) > 0 {
				c.Pad = []int{2500, 3600, 3900, 4096, 4300, 6000, 8192, 16384, 40000, 65536}[uni(t, "pad", 10)] + uni(t, "padoff", 64)
			}
		}
		h.Steps = append(h.Steps, Step{Post: &c})
		p := genPair(t) // every POST is followed by at least one evaluation
		h.Steps = append(h.Steps, Step{Eval: &p})
		return &c
	}
	for i := 0; i < n; i++ {
		k := uni(t, "post", 9)
		if k == 3 && unknown {
			h.Steps = append(h.Steps, Step{Reg: true})
			continue
		}
		if k < 3 {
			c := post(uni(t, "faulty", 2) == 0)
			if c.mustReject() && c.Cut < 0 && c.Tail == "" && c.faultName() == tr.FaultUnknownName {
				unknown = true
				if uni(t, "thenregister", 3) > 0 {
					// ... the program registers a node type, then a valid document arrives
					h.Steps = append(h.Steps, Step{Reg: true})
					post(false)
				}
			}
		} else {
			p := genPair(t)
			h.Steps = append(h.Steps, Step{Eval: &p})
		}
	}
	return h
}

var propHistory = &kit.Prop[History]{
	ID: "C12", Name: "reconfigure",
	Rule: "histories of 2..12|20 steps through martianhttp.Modifier.ServeHTTP: POST of a valid or faulty configuration tree (same generator as the tree check, depth <= 3) interleaved with evaluations of message pairs and - once a document naming an unknown modifier has been rejected in the history - with parse.Register calls of the embedding program (a harness-defined node type), usually followed by a valid document; every POST and Register call must return within T (re-validated at 3T); a faulty POST must be refused (4xx) and leave the previous tree fully in force, a valid one (2xx) must replace it completely; non-trivial = an evaluation right after a rejected POST while a configuration is active, or a second accepted configuration",
	Gen:  func(t *rapid.T) History { return genHistory(t, false) },
	Run:  runHistory,
	NonTrivial: func(h History) bool {
		_, _, ear, rep := histStats(h)
		return ear > 0 || rep > 0
	},
	Classes: func(h History) []string {
		var cl []string
		_, rej, ear, rep := histStats(h)
		if rej > 0 {
			cl = append(cl, "has-rejected-post")
		}
		if ear > 0 {
			cl = append(cl, "eval-after-rejected-post")
		}
		if rep > 0 {
			cl = append(cl, "config-replaced")
		}
		regs, rauv := regStats(h)
		if regs > 0 {
			cl = append(cl, "has-register-call")
		}
		if rauv {
			cl = append(cl, "register-after-rejected-unknown-then-valid-post")
		}
		return cl
	},
	Gates: map[string]float64{"eval-after-rejected-post": 0.25, "config-replaced": 0.25, "has-register-call": 0.08, "register-after-rejected-unknown-then-valid-post": 0.06},
}

func TestReconfigure(t *testing.T) { propHistory.Check(t, kit.N(3000, 16000)) }

func bigPosts(h History) (big, bigValid, bigChunked int) {
	for _, st := range h.Steps {
		if st.Post != nil && len(st.Post.text()) > 4096 {
			big++
			if !st.Post.mustReject() {
				bigValid++
			}
			if st.Post.Chunked {
				bigChunked++
			}
		}
	}
	return
}

var propHTTPHistory = &kit.Prop[History]{
	ID: "C12", Name: "reconfigure-http", Journal: true,
	Rule: "the same reconfiguration histories with every document POSTed over a real HTTP connection (net/http client, keep-alive) to a server whose handler is the martianhttp.Modifier; 3 documents in 4 are padded (inert nodes + one long header value) to 2.5..64 KB, 1 in 3 is sent chunked, the rest with Content-Length; evaluations in between as before; non-trivial = a valid document larger than 4096 bytes is posted",
	Gen:  func(t *rapid.T) History { return genHistory(t, true) },
	Run:  runHistory,
	NonTrivial: func(h History) bool {
		_, bv, _ := bigPosts(h)
		return bv > 0
	},
	Classes: func(h History) []string {
		var cl []string
		b, bv, bc := bigPosts(h)
		if b > 0 {
			cl = append(cl, "document>4096")
		}
		if bv > 0 {
			cl = append(cl, "valid-document>4096")
		}
		if bc > 0 {
			cl = append(cl, "chunked-document>4096")
		}
		_, _, ear, rep := histStats(h)
		if ear > 0 {
			cl = append(cl, "eval-after-rejected-post")
		}
		if rep > 0 {
			cl = append(cl, "config-replaced")
		}
		return cl
	},
	Gates: map[string]float64{"valid-document>4096": 0.4, "chunked-document>4096": 0.2, "config-replaced": 0.2},
}

func TestReconfigureHTTP(t *testing.T) {
	if registryStuck.Load() {
		t.Skip("a configuration call of an earlier check never returned; the process-wide parse registry is stuck")
	}
	propHTTPHistory.Check(t, kit.N(150, 600))
}

// ---------------------------------------------------------------- concurrent reconfiguration

// RaceCase: Posters goroutines POST, at the same moment, configurations that
// differ only in an identifying probe; after all POSTs have returned the
// behaviour on requests AND on responses must be that of one and the same
// posted configuration. Repeated Rounds times on one martianhttp.Modifier.
type RaceCase struct {
	Tree    *tr.Node `json:"tree"` // common body of every configuration
	Posters int      `json:"posters"`
	Rounds  int      `json:"rounds"`
	Msg     Pair     `json:"msg"`
}

func (c RaceCase) config(i int) *tr.Node {
	probe := &tr.Node{ID: 900000 + i, T: tr.HeaderAppend, P: map[string]string{"name": "X-Verif-Config", "value": fmt.Sprintf("c%d", i)}}
	return &tr.Node{ID: 800000 + i, T: tr.Fifo, Kids: []*tr.Node{probe, c.Tree}}
}

func runRace(c RaceCase) kit.Verdict {
	m := martianhttp.NewModifier()
	trees := make([]*tr.Node, c.Posters)
	bodies := make([]string, c.Posters)
	for i := range trees {
		trees[i] = c.config(i)
		bodies[i] = string(trees[i].JSON())
	}
	for round := 0; round < c.Rounds; round++ {
		start := make(chan struct{})
		codes := make([]int, c.Posters)
		var wg sync.WaitGroup
		for i := 0; i < c.Posters; i++ {
			wg.Add(1)
			go func(i int) {
				defer wg.Done()
				rw := httptest.NewRecorder()
				req := httptest.NewRequest("POST", "/configure", strings.NewReader(bodies[i]))
				<-start
				m.ServeHTTP(rw, req)
				codes[i] = rw.Code
			}(i)
		}
		close(start)
		wg.Wait()
		for i, code := range codes {
			if code < 200 || code > 299 {
				return kit.Failf("C12/reconfigure/valid-post/refused", "round %d: concurrent POST %d of a valid configuration answered %d: %s", round, i, code, bodies[i])
			}
		}
		// quiescence: which configuration handles requests?
		req := realRequest(&c.Msg.Req)
		_, remove, err := martian.TestContext(req, nil, nil)
		if err != nil {
			panic(err)
		}
		m.ModifyRequest(req)
		remove()
		tag := req.Header.Get("X-Verif-Config")
		which := -1
		fmt.Sscanf(tag, "c%d", &which)
		if which < 0 || which >= c.Posters {
			return kit.Failf("C12/reconfigure/concurrent-accepted-posts/no-posted-configuration-active", "round %d: after %d concurrent accepted POSTs a request is handled by none of the posted configurations (tag %q)", round, c.Posters, tag)
		}
		for _, f := range applyPair("reconfigure/concurrent-accepted-posts", trees[which], m, m, c.Msg) {
			return kit.Failf(f.Sig, "round %d of %d, %d posters: requests are handled by configuration c%d, but the whole behaviour is not that configuration's: %s", round, c.Rounds, c.Posters, which, f.Msg)
		}
	}
	return nil
}

var propRace = &kit.Prop[RaceCase]{
	ID: "C12", Name: "reconfigure-concurrent",
	Rule: "2..8 goroutines POST at the same moment valid configurations that share a generated tree (depth <= 2) and differ in an identifying probe, 150..400 rounds on one martianhttp.Modifier; after every round (all POSTs returned) a request/response pair must behave, on both sides, exactly as ONE of the posted configurations says; non-trivial = at least 3 posters",
	Gen: func(t *rapid.T) RaceCase {
		g := &gen{t: t, maxDepth: 1 + uni(t, "maxdepth", 2), maxWidth: 2}
		return RaceCase{Tree: g.node(1), Posters: 2 + uni(t, "posters", 7), Rounds: 150 + uni(t, "rounds", 251), Msg: genPair(t)}
	},
	Run:        runRace,
	NonTrivial: func(c RaceCase) bool { return c.Posters >= 3 },
	Classes: func(c RaceCase) []string {
		if c.Posters >= 6 {
			return []string{"posters>=6"}
		}
		return nil
	},
}

func TestReconfigureConcurrent(t *testing.T) {
	if registryStuck.Load() {
		t.Skip("a configuration call of an earlier check never returned; the process-wide parse registry is stuck")
	}
	propRace.Check(t, kit.N(40, 120))
}

// ---------------------------------------------------------------- the other registered filters

// The statement speaks of "the registered groups, filters and modifiers":
// port.Filter and header.RegexFilter are registered filters too. They get a
// matrix of their own, with signatures made from the filter kind, the side and
// the form of the message, so that what is on record for one form does not
// hide another.

func extraFilter(c Case) *tr.Node {
	var f *tr.Node
	c.Tree.Walk(func(n *tr.Node, _ int) {
		if n.T == tr.PortFilter || n.T == tr.RegexFilter || n.T == tr.HeaderFilter || n.T == tr.URLFilter {
			f = n
		}
	})
	return f
}

func extraForm(f *tr.Node, rq *tr.Req) string {
	if f.T == tr.HeaderFilter {
		return "content-length-zero"
	}
	if f.T == tr.URLFilter {
		return "host-with-port-or-v6-literal"
	}
	if f.T == tr.PortFilter {
		v6 := strings.HasPrefix(rq.Host, "[")
		switch {
		case v6 && tr.URLPort(rq.Host) == "":
			return "ipv6-literal-without-port"
		case v6:
			return "ipv6-literal-with-port"
		case tr.URLPort(rq.Host) == "":
			return "url-without-port"
		}
		return "url-with-port"
	}
	name := http.CanonicalHeaderKey(f.P["header"])
	switch {
	case name == "Host":
		return "host-field"
	case len(rq.Header[name]) == 0:
		return "header-absent"
	case len(rq.Header[name]) > 1:
		return "repeated-header"
	}
	return "single-value"
}

func runExtra(c Case) kit.Verdict {
	f := extraFilter(c)
	kind := map[string]string{tr.PortFilter: "port-filter", tr.RegexFilter: "regex-filter", tr.HeaderFilter: "header-filter", tr.URLFilter: "url-filter"}[f.T]
	var out kit.Verdict
	if registryStuck.Load() {
		return nil // see registryStuck
	}
	r, err, hung := parseBounded("enum-port-regex-filters", c)
	if hung != nil {
		return hung
	}
	if c.mustReject() {
		if err == nil {
			where := "modifier"
			if f.Else != nil && f.Else.Fault != "" {
				where = "else"
			}
			out.Addf("C12/reject/"+c.faultName()+"-in-"+where+"-of-"+kind+"/configuration-accepted", "configuration with fault %q in the %s branch of a %s was accepted: %s", c.faultName(), where, f.T, c.text())
		}
		return out
	}
	if err != nil {
		return kit.Failf("C12/parse/valid-tree/rejected", "valid configuration rejected with %v: %s", err, c.text())
	}
	for i, p := range c.Msgs {
		v := applyPair("eval", c.Tree, r.RequestModifier(), r.ResponseModifier(), p)
		// which branch does the tree say, per side?
		in := &tr.Interp{Branches: map[int]string{}}
		rq := p.Req.Clone()
		in.Request(c.Tree, rq)
		rs := p.Res.Clone()
		rs.Req = rq
		in.Response(c.Tree, rs)
		branches := in.Branches[f.ID] // e.g. "TF": request side true, response side false
		for si, side := range []string{"request", "response"} {
			var errDiff, otherDiff *kit.Failure
			for k := range v {
				if strings.Contains(v[k].Sig, "/"+side+"/") {
					if strings.HasSuffix(v[k].Sig, "errors-differ") {
						errDiff = &v[k]
					} else {
						otherDiff = &v[k]
					}
				}
			}
			form := side + "-" + extraForm(f, &p.Req)
			holds := si < len(branches) && branches[si] == 'T'
			switch {
			case errDiff != nil:
				out.Addf("C12/"+kind+"/"+form+"/error-instead-of-branch", "message %d: %s\nconfiguration: %s", i, errDiff.Msg, c.text())
			case otherDiff != nil && !holds && f.Else != nil:
				out.Addf("C12/"+kind+"/else-branch/not-run", "message %d (%s): the condition does not hold and the else branch did not run: %s\nconfiguration: %s", i, form, otherDiff.Msg, c.text())
			case otherDiff != nil && holds:
				out.Addf("C12/"+kind+"/"+form+"/condition-holds-but-modifier-not-applied", "message %d: %s\nconfiguration: %s", i, otherDiff.Msg, c.text())
			case otherDiff != nil:
				out.Addf("C12/"+kind+"/"+form+"/behaviour-differs", "message %d: %s\nconfiguration: %s", i, otherDiff.Msg, c.text())
			}
		}
	}
	return out
}

var propExtra = &kit.Prop[Case]{
	ID: "C12", Name: "enum-port-regex-filters",
	Rule: "ALL of: port.Filter{80,443,8080} x {http,https} x authority {name, name:80, name:8080, [::1], [::1]:8080} x {with, without else}; header.RegexFilter{X-A|x-a|Host} x {^1$, example} x request header {absent, 1, 2, [2 1]} x {with, without else}; each inside fifo[probe, filter{then probe, else probe}, probe] on one request/response pair; plus url.Filter{host: name:port | *.name:port | [::1]:port | [::1]} x {request of that authority, another} x {request, response scope}; plus header.Filter{Content-Length, 0} on a response carrying Content-Length: 0; plus an unknown modifier in the modifier / else branch of port.Filter / header.RegexFilter (must be rejected); non-trivial = all",
	Run:  runExtra,
}

func TestEnumExtraFilters(t *testing.T) {
	if registryStuck.Load() {
		t.Skip("a configuration call of an earlier check never returned; the process-wide parse registry is stuck")
	}
	probe := func(id int) *tr.Node {
		return &tr.Node{ID: id, T: tr.HeaderAppend, P: map[string]string{"name": "X-Verif-Trace", "value": fmt.Sprintf("t%d", id)}}
	}
	wrap := func(f *tr.Node, withElse bool) *tr.Node {
		f.ID, f.Then = 2, probe(3)
		if withElse {
			f.Else = probe(4)
		}
		return &tr.Node{ID: 1, T: tr.Fifo, Kids: []*tr.Node{probe(5), f, probe(6)}}
	}
	pair := func(scheme, host string, xa []string) Pair {
		p := Pair{Req: tr.Req{Method: "GET", Scheme: scheme, Host: host, Path: "/", HostH: host, Header: map[string][]string{}},
			Res: tr.Res{Status: 200, Header: map[string][]string{}}}
		if xa != nil {
			p.Req.Header["X-A"] = xa
		}
		return p
	}
	propExtra.Enumerate(t, func(yield func(Case) bool) {
		for _, withElse := range []bool{false, true} {
			for _, port := range []int{80, 443, 8080} {
				for _, scheme := range []string{"http", "https"} {
					for _, host := range []string{"example.com", "example.com:80", "example.com:8080", "[::1]", "[::1]:8080"} {
						c := Case{Tree: wrap(&tr.Node{T: tr.PortFilter, N: port}, withElse), Cut: -1, Msgs: []Pair{pair(scheme, host, nil)}}
						if !yield(c) {
							return
						}
					}
				}
			}
			for _, name := range []string{"X-A", "x-a", "Host"} {
				for _, re := range []string{"^1$", "example"} {
					for _, xa := range [][]string{nil, {"1"}, {"2"}, {"2", "1"}} {
						c := Case{Tree: wrap(&tr.Node{T: tr.RegexFilter, P: map[string]string{"header": name, "regex": re}}, withElse), Cut: -1, Msgs: []Pair{pair("http", "example.com", xa)}}
						if !yield(c) {
							return
						}
					}
				}
			}
		}
		// url.Filter whose host carries a port or is a bracketed IPv6 literal:
		// a request of exactly that authority, and one that differs
		for _, hm := range [][3]string{
			{"example.com:8080", "example.com:8080", "example.com"},
			{"*.example.com:8080", "a.example.com:8080", "a.example.com:80"},
			{"[::1]:8080", "[::1]:8080", "[::1]"},
			{"[::1]", "[::1]", "[::1]:8080"},
		} {
			for _, host := range hm[1:] {
				for _, scope := range []string{"request", "response"} {
					f := &tr.Node{T: tr.URLFilter, P: map[string]string{"host": hm[0]}, HasScope: true, Scope: []string{scope}}
					if !yield(Case{Tree: wrap(f, true), Cut: -1, Msgs: []Pair{pair("http", host, nil)}}) {
						return
					}
				}
			}
		}
		// header.Filter{Content-Length, "0"} on a response that carries Content-Length: 0
		for _, withElse := range []bool{false, true} {
			p := pair("http", "example.com", nil)
			p.Req.CL, p.Res.CL = 0, 0
			c := Case{Tree: wrap(&tr.Node{T: tr.HeaderFilter, P: map[string]string{"name": "Content-Length", "value": "0"}}, withElse), Cut: -1, Msgs: []Pair{p}}
			if !yield(c) {
				return
			}
		}
		for _, kind := range []string{tr.PortFilter, tr.RegexFilter} {
			for _, inElse := range []bool{false, true} {
				f := &tr.Node{T: kind, N: 80, P: map[string]string{"header": "X-A", "regex": "^1$"}}
				if kind == tr.PortFilter {
					f.P = nil
				}
				root := wrap(f, true)
				if inElse {
					f.Else.Fault = tr.FaultUnknownName
				} else {
					f.Then.Fault = tr.FaultUnknownName
				}
				if !yield(Case{Tree: root, Cut: -1}) {
					return
				}
			}
		}
	})
}

// ---------------------------------------------------------------- registration racing nested parses

// RegRaceCase: Parsers goroutines keep posting a nested valid configuration
// while the embedding program registers a node type Registers times
// (parse.Register is legal at any time: the registry is locked). Everything
// must return.
type RegRaceCase struct {
	Tree      *tr.Node `json:"tree"`
	Parsers   int      `json:"parsers"`
	Posts     int      `json:"posts"` // per parser
	Registers int      `json:"registers"`
}

func runRegRace(c RegRaceCase) kit.Verdict {
	if registryStuck.Load() {
		return nil
	}
	m := martianhttp.NewModifier()
	body := string(c.Tree.JSON())
	var refused atomic.Int64
	ok := bounded("register-concurrent", func() {
		var wg sync.WaitGroup
		var parsing atomic.Int64
		for p := 0; p < c.Parsers; p++ {
			wg.Add(1)
			parsing.Add(1)
			go func() {
				defer wg.Done()
				defer parsing.Add(-1)
				for i := 0; i < c.Posts; i++ {
					rw := httptest.NewRecorder()
					m.ServeHTTP(rw, httptest.NewRequest("POST", "/configure", strings.NewReader(body)))
					if rw.Code != 200 {
						refused.Add(1)
					}
				}
			}()
		}
		wg.Add(1)
		go func() {
			defer wg.Done()
			for i := 0; i < c.Registers && parsing.Load() > 0; i++ {
				parse.Register(tr.Inert, inertFromJSON)
				runtime.Gosched()
			}
		}()
		wg.Wait()
	})
	if !ok {
		registryStuck.Store(true)
		return kit.Failf("C12/reconfigure/register-concurrent-with-nested-parse/calls-do-not-return", "%d goroutines posting a nested valid configuration (depth %d) while parse.Register is called: not all calls returned within %v: %s", c.Parsers, c.Tree.Depth(), 3*kit.T(), short([]byte(body)))
	}
	if n := refused.Load(); n > 0 {
		return kit.Failf("C12/reconfigure/valid-post/refused", "%d POSTs of a valid configuration were refused while parse.Register was being called: %s", n, short([]byte(body)))
	}
	return nil
}

var propRegRace = &kit.Prop[RegRaceCase]{
	ID: "C12", Name: "register-concurrent",
	Rule: "1..6 goroutines POST a nested valid configuration (depth >= 2) 100..300 times each while another goroutine calls parse.Register of a harness-defined node type; every call must return within T (re-validated at 3T) and every POST must be accepted; non-trivial = depth >= 3",
	Gen: func(t *rapid.T) RegRaceCase {
		g := &gen{t: t, maxDepth: 2 + uni(t, "maxdepth", 3), maxWidth: 3}
		tree := g.node(1)
		if tree.Depth() < 2 {
			tree = &tr.Node{ID: 500000, T: tr.Fifo, Kids: []*tr.Node{tree}}
		}
		return RegRaceCase{Tree: tree, Parsers: 1 + uni(t, "parsers", 6), Posts: 100 + uni(t, "posts", 201), Registers: 2000}
	},
	Run:        runRegRace,
	NonTrivial: func(c RegRaceCase) bool { return c.Tree.Depth() >= 3 },
}

// TestZRegisterConcurrent runs last: a hang leaves the process-wide registry stuck.
func TestZRegisterConcurrent(t *testing.T) {
	if registryStuck.Load() {
		t.Skip("a configuration call of an earlier check never returned; the process-wide parse registry is stuck")
	}
	propRegRace.Check(t, kit.N(30, 100))
}

func TestReplay(t *testing.T) {
	kit.Replay(t, propTree, propEnum, propHistory, propHTTPHistory, propRace, propRegRace, propExtra)
}
