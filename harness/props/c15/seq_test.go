package c15

// Sequence variant: several messages pass the SAME logger instance(s) before
// the first of them is forwarded. A logger that keeps a reference into memory
// it reuses for the next message (pooled read buffers) is invisible to a
// one-message case: the forwarded bytes of message A change only when message
// B is logged while A is still waiting to be written.

import (
	"fmt"
	"net/http"
	"strings"
	"sync"
	"sync/atomic"
	"testing"

	"github.com/google/martian/v3/har"
	"github.com/google/martian/v3/marbl"
	"github.com/google/martian/v3/martianlog"
	"github.com/google/martian/v3/messageview"
	"pgregory.net/rapid"

	"verifharness/internal/kit"
	"verifharness/props/msggen"
)

// SeqCase is a sequence of messages through one logger configuration.
type SeqCase struct {
	Msgs  []msggen.Spec `json:"msgs"`
	Skip  []bool        `json:"skip,omitempty"`  // per message: marked skip-logging
	Other []bool        `json:"other,omitempty"` // per message: logged on another goroutine
	// Pipeline: message i is forwarded right after message i+1 was logged;
	// otherwise all are logged first and forwarded in the order Consume.
	Pipeline bool  `json:"pipeline,omitempty"`
	Consume  []int `json:"consume,omitempty"`
	Rounds   int   `json:"rounds"` // the whole sequence is repeated (fresh loggers): pooled memory is reused from round to round

	Logger      string   `json:"logger"`
	Post        HarOpt   `json:"post"`
	Body        HarOpt   `json:"body"`
	HeadersOnly bool     `json:"headers_only,omitempty"`
	Decode      bool     `json:"decode,omitempty"`
	SnapSkip    string   `json:"snap_skip,omitempty"`
	SnapTypes   []string `json:"snap_types,omitempty"`
	Proxy       bool     `json:"proxy,omitempty"`
	Order       []int    `json:"order,omitempty"`
}

// single is the one-message case of message i under the same configuration.
func (sc SeqCase) single(i int) Case {
	c := Case{Msg: sc.Msgs[i], Logger: sc.Logger, Post: sc.Post, Body: sc.Body, HeadersOnly: sc.HeadersOnly, Decode: sc.Decode,
		SnapSkip: sc.SnapSkip, SnapTypes: sc.SnapTypes, Proxy: sc.Proxy && !sc.Msgs[i].Response, Order: sc.Order}
	if i < len(sc.Skip) && sc.Logger != "snapshot" {
		c.Skip = sc.Skip[i]
	}
	return c
}

// logset is one instance of every logger, shared by the whole sequence.
type logset struct {
	har       *har.Logger
	mw        *countWriter
	marbl     *marbl.Modifier
	text      *martianlog.Logger
	textCalls int64
	recMu     sync.Mutex
	records   []string // what the text logger emitted, in order
}

// record is the sink of the text logger.
func (ls *logset) record(line string) {
	ls.recMu.Lock()
	ls.records = append(ls.records, line)
	ls.recMu.Unlock()
	atomic.AddInt64(&ls.textCalls, 1)
}

// lastRecord is the latest record of the text logger.
func (ls *logset) lastRecord() string {
	ls.recMu.Lock()
	defer ls.recMu.Unlock()
	if len(ls.records) == 0 {
		return ""
	}
	return ls.records[len(ls.records)-1]
}

func newLogset(post, body HarOpt, headersOnly, decode bool) *logset {
	ls := &logset{har: har.NewLogger(), mw: &countWriter{}, text: martianlog.NewLogger()}
	ls.har.SetOption(post.Option(true), body.Option(false))
	ls.marbl = marbl.NewModifier(ls.mw)
	ls.text.SetHeadersOnly(headersOnly)
	ls.text.SetDecode(decode)
	ls.text.SetLogFunc(ls.record)
	return ls
}

// loggerNames lists the loggers a case passes, in order.
func loggerNames(logger string, order []int) []string {
	switch logger {
	case "har", "marbl", "text":
		return []string{logger}
	case "stack":
		var out []string
		for _, i := range order {
			out = append(out, []string{"har", "marbl", "text"}[i])
		}
		return out
	}
	return nil
}

func (ls *logset) count(name string) int64 {
	switch name {
	case "har":
		return int64(len(ls.har.Export().Log.Entries))
	case "marbl":
		return atomic.LoadInt64(&ls.mw.n)
	}
	return atomic.LoadInt64(&ls.textCalls)
}

type modifier interface {
	ModifyRequest(*http.Request) error
	ModifyResponse(*http.Response) error
}

func (ls *logset) mod(name string) modifier {
	switch name {
	case "har":
		return ls.har
	case "marbl":
		return ls.marbl
	}
	return ls.text
}

// applyReq: the request phase of the exchange a response belongs to.
func (ls *logset) applyReq(name string, t *twin) error { return ls.mod(name).ModifyRequest(t.req) }

// applyMsg: the message under test.
func (ls *logset) applyMsg(name string, t *twin) error {
	if t.res == nil {
		return ls.mod(name).ModifyRequest(t.req)
	}
	return ls.mod(name).ModifyResponse(t.res)
}

type seqMsg struct {
	c        Case
	m        *msggen.Message
	ctl, sub *twin
	mv       *messageview.MessageView
	captured bool
	claims   bool
	v        kit.Verdict // failures of this message, signatures as in the one-message check
	later    bool        // another message was logged between the logging and the forwarding of this one
	logged   bool
}

func runSeq(sc SeqCase) (v kit.Verdict) {
	rounds := sc.Rounds
	if rounds < 1 {
		rounds = 1
	}
	for r := 0; r < rounds && len(v) == 0; r++ {
		v = seqRound(sc)
	}
	return v
}

func seqRound(sc SeqCase) (v kit.Verdict) {
	n := len(sc.Msgs)
	ms := make([]*seqMsg, n)
	for i := range sc.Msgs {
		s := &seqMsg{c: sc.single(i), m: msggen.Build(sc.Msgs[i])}
		var err error
		if s.ctl, err = parse(s.m, false, ""); err != nil {
			return kit.Failf("C15/harness/generated-message-unparseable", "net/http cannot parse generated message %d: %v\n%s", i, err, head(s.m.Wire))
		}
		defer s.ctl.remove()
		if s.sub, err = parse(s.m, false, ""); err != nil {
			return kit.Failf("C15/harness/generated-message-unparseable", "second parse of message %d: %v", i, err)
		}
		defer s.sub.remove()
		if s.c.Skip {
			s.sub.ctx.SkipLogging()
		}
		ms[i] = s
	}
	ls := newLogset(sc.Post, sc.Body, sc.HeadersOnly, sc.Decode)
	names := loggerNames(sc.Logger, sc.Order)

	logOne := func(i int) {
		s := ms[i]
		for _, o := range ms {
			if o.logged {
				o.later = true // still unforwarded while message i is logged
			}
		}
		work := func() {
			if sc.Logger == "snapshot" {
				var sv kit.Verdict
				s.mv, s.captured, s.claims, sv = takeSnapshot(s.c, s.m, s.sub)
				s.v = append(s.v, sv...)
				return
			}
			if s.sub.res != nil {
				for _, name := range names {
					ls.applyReq(name, s.sub)
				}
			}
			for _, name := range names {
				before := ls.count(name)
				if err := ls.applyMsg(name, s.sub); err != nil {
					kit.Note("sequence", "a logger returned an error on some generated message (the forwarded bytes are still compared)")
				}
				if name == "text" && ls.count(name) == before+1 {
					// the record just emitted must be this message
					s.v = append(s.v, verifyTextRecord(s.c, s.m, s.sub, ls.lastRecord())...)
				}
				// (the marbl stream writes its frames on its own goroutine: it is
				// judged at the end of the round by the IDs in the frames)
				if name != "marbl" && s.c.Skip && ls.count(name) != before {
					s.v.Addf("C15/skip-logging/"+name+"/recorded", "message %d is marked skip-logging, yet the %s logger recorded it", i, name)
				}
			}
		}
		if i < len(sc.Other) && sc.Other[i] {
			done := make(chan struct{})
			go func() { defer close(done); work() }()
			<-done
		} else {
			work()
		}
		s.logged = true
	}

	forwardOne := func(i int) {
		s := ms[i]
		s.logged = false // no longer waiting
		if s.mv != nil && s.claims {
			s.v = append(s.v, verifySnapshot(s.c, s.m, s.sub, s.mv, s.captured)...)
		}
		shape := forwardShape(s.c, s.m)
		if s.sub.res == nil && s.ctl.req.Body == http.NoBody && s.sub.req.Body != http.NoBody && s.sub.req.Body != nil && probed(s.sub.req.Method) {
			// see run(): not decided by writing (net/http's timed body probe)
			s.v.Addf("C15/forward/"+sc.Logger+"/request-without-body/reframed-as-chunked", "the logger replaced http.NoBody of a bodyless %s by %T", s.sub.req.Method, s.sub.req.Body)
			return
		}
		want, werr := s.ctl.write(s.c.Proxy)
		got, gerr := s.sub.write(s.c.Proxy)
		bodyless := s.m.Spec.Response && s.m.Spec.ReqMethod == "HEAD"
		if werr != nil {
			s.v.Addf("C15/harness/control-not-writable", "the unlogged twin of message %d cannot be serialised: %v", i, werr)
		} else if gerr != nil {
			s.v.Addf("C15/forward/"+sc.Logger+"/"+shape+"/write-error", "message %d of %d: after logging, serialising the message fails: %v (the unlogged twin is written without error)", i, n, gerr)
		} else if same, class := sameOnWire(want, got, bodyless, false); !same {
			s.v.Addf("C15/forward/"+sc.Logger+"/"+shape+"/"+class, "message %d of %d: forwarded bytes differ from the unlogged twin (%s): %s\nunlogged head: %s\nlogged head:   %s", i, n, class, kit.Diff(want, got), head(want), head(got))
		}
	}

	if sc.Pipeline {
		logOne(0)
		for i := 1; i < n; i++ {
			logOne(i)
			forwardOne(i - 1)
		}
		forwardOne(n - 1)
	} else {
		for i := 0; i < n; i++ {
			logOne(i)
		}
		order := sc.Consume
		if len(order) != n {
			order = nil
			for i := 0; i < n; i++ {
				order = append(order, i)
			}
		}
		for _, i := range order {
			forwardOne(i)
		}
	}

	for i, s := range ms {
		// every exchange sends at least four header frames, and a frame is
		// written before the next one is accepted: frames of a recorded
		// exchange are on the writer by now
		if s.c.Skip && sc.Logger != "snapshot" && ls.mw.frames(s.sub.ctx.ID()) > 0 {
			s.v.Addf("C15/skip-logging/marbl/recorded", "message %d is marked skip-logging, yet the marbl stream holds %d frames with its ID", i, ls.mw.frames(s.sub.ctx.ID()))
		}
	}

	// attribution: what the message shows on its own keeps its one-message
	// signature (known findings stay known); what only the sequence shows gets
	// a signature naming the sequence shape
	for i, s := range ms {
		if len(s.v) == 0 {
			continue
		}
		alone := run(s.c)
		aloneKind := map[string]bool{}
		for _, f := range alone {
			aloneKind[kind(f.Sig)] = true
		}
		for _, f := range s.v {
			k := kind(f.Sig)
			if k == "C15/skip-logging" || k == "C15/harness" {
				v = append(v, f)
				continue
			}
			if aloneKind[k] {
				continue // reported below with the one-message signatures
			}
			v.Addf(seqSig(sc, k, f.Sig, s.later), "%s\n(message %d of a sequence of %d through one logger; the same message alone passes)", f.Msg, i, n)
		}
		for _, f := range alone {
			if k := kind(f.Sig); k == "C15/forward" || k == "C15/snapshot" || k == "C15/text-log" {
				v = append(v, f)
			}
		}
	}
	return v
}

func kind(sig string) string {
	p := strings.SplitN(sig, "/", 3)
	if len(p) < 2 {
		return sig
	}
	return p[0] + "/" + p[1]
}

// seqSig names the sequence shape: which logger, whether the damaged message
// was followed by another one before it was forwarded, and what changed.
func seqSig(sc SeqCase, k, sig string, later bool) string {
	class := sig[strings.LastIndex(sig, "/")+1:]
	if k == "C15/text-log" {
		// the record emitted for this message is wrong only after other
		// messages passed the same logger
		return fmt.Sprintf("C15/sequence/%s/text-record-%s-after-earlier-message", sc.Logger, class)
	}
	what := "exchange"
	if k == "C15/snapshot" {
		what = "snapshot"
	}
	pos := "last-" + what
	suffix := ""
	if later {
		pos = "earlier-" + what
		suffix = "-after-later-one"
		if class == "body-differs" || class == "write-error" {
			// (a write error is a body that no longer has the announced length)
			return fmt.Sprintf("C15/sequence/%s/%s-body-changed-by-later-one", sc.Logger, pos)
		}
	}
	return fmt.Sprintf("C15/sequence/%s/%s-%s%s", sc.Logger, pos, class, suffix)
}

// ---------------------------------------------------------------- generation

func genSeq(t *rapid.T) SeqCase {
	sc := SeqCase{
		Logger:   rapid.SampledFrom([]string{"har", "marbl", "text", "text", "snapshot", "snapshot", "stack", "har"}).Draw(t, "logger"),
		Pipeline: rapid.Bool().Draw(t, "pipeline"),
		Rounds:   3,
	}
	n := rapid.IntRange(2, 4).Draw(t, "n")
	// bodies stay below 70 kB: large bodies trigger garbage collections, which
	// empty sync.Pools and hide exactly what this variant is after
	o := msggen.Options{MaxBody: 70000, Forms: true} // Forms: bias to methods that carry a body
	for i := 0; i < n; i++ {
		if rapid.Bool().Draw(t, "response") {
			sc.Msgs = append(sc.Msgs, msggen.DrawResponse(t, o, rapid.SampledFrom([]string{"GET", "GET", "POST", "HEAD"}).Draw(t, "req_method")))
		} else {
			sc.Msgs = append(sc.Msgs, msggen.DrawRequest(t, o))
		}
		// overwritten memory shows only in bodies that have bytes
		if b := &sc.Msgs[i].Body; (b.Kind == "text" || b.Kind == "json" || b.Kind == "binary") && b.Size < 16 {
			b.Size = rapid.IntRange(16, 3000).Draw(t, "min_size")
		}
		sc.Skip = append(sc.Skip, sc.Logger != "snapshot" && rapid.IntRange(0, 5).Draw(t, "skip") == 0)
		sc.Other = append(sc.Other, rapid.IntRange(0, 2).Draw(t, "other_goroutine") == 0)
	}
	// a logger that carries state from one message to the next shows it when
	// the framing changes within one direction: chunked first, sized afterwards
	if rapid.IntRange(0, 2).Draw(t, "mix_framings") == 0 {
		dir := sc.Msgs[0].Response
		first := true
		for i := range sc.Msgs {
			m := &sc.Msgs[i]
			if m.Response != dir || m.Framing == "none" || m.Proto10 {
				continue
			}
			if first {
				m.Framing, first = "chunked", false
			} else if m.Framing == "chunked" {
				m.Framing, m.Trailers, m.TrailersUnannounced, m.Chunks = "cl", nil, false, nil
			}
		}
	}
	if !sc.Pipeline {
		idx := make([]int, n)
		for i := range idx {
			idx[i] = i
		}
		sc.Consume = rapid.Permutation(idx).Draw(t, "consume")
	}
	sc.Proxy = rapid.Bool().Draw(t, "write_proxy")
	sc.Post = HarOpt{Mode: "all"}
	sc.Body = HarOpt{Mode: "all"}
	if rapid.IntRange(0, 3).Draw(t, "har_opts") == 0 {
		sc.Post, sc.Body = drawHarOpt(t, "post"), drawHarOpt(t, "body")
	}
	sc.HeadersOnly = rapid.IntRange(0, 5).Draw(t, "headers_only") == 0
	sc.Decode = rapid.Bool().Draw(t, "decode")
	if rapid.IntRange(0, 4).Draw(t, "snap_skip") == 0 {
		sc.SnapSkip = "all"
	}
	if sc.Logger == "stack" {
		sc.Order = rapid.Permutation([]int{0, 1, 2}).Draw(t, "order")
	}
	return sc
}

func seqSizes(sc SeqCase) (bodies int, smaller, larger bool) {
	prev := -1
	for _, s := range sc.Msgs {
		sz := bodySize(s)
		if s.Framing == "none" || (s.Response && (s.ReqMethod == "HEAD" || s.Status == 204 || s.Status == 304)) {
			sz = 0
		}
		if sz == 0 {
			continue
		}
		bodies++
		if prev > 0 && sz < prev {
			smaller = true
		}
		if prev > 0 && sz > prev {
			larger = true
		}
		prev = sz
	}
	return
}

func seqClasses(sc SeqCase) []string {
	cl := []string{"logger-" + sc.Logger, fmt.Sprintf("messages-%d", len(sc.Msgs))}
	if sc.Pipeline {
		cl = append(cl, "pipeline")
	} else {
		cl = append(cl, "batch")
	}
	for _, o := range sc.Other {
		if o {
			cl = append(cl, "other-goroutine")
			break
		}
	}
	for _, dir := range []bool{false, true} {
		chunked := false
		for _, m := range sc.Msgs {
			if m.Response != dir {
				continue
			}
			if chunked && (m.Framing == "cl" || m.Framing == "close") {
				cl = append(cl, "chunked-then-sized-same-direction")
				chunked = false
			}
			if m.Framing == "chunked" {
				chunked = true
			}
		}
	}
	bodies, smaller, larger := seqSizes(sc)
	if bodies >= 2 {
		cl = append(cl, "two-bodies")
	}
	if smaller {
		cl = append(cl, "later-smaller")
	}
	if larger {
		cl = append(cl, "later-larger")
	}
	return cl
}

var propSequence = &kit.Prop[SeqCase]{
	ID: "C15", Name: "sequence",
	Rule: "2..4 generated messages (requests and responses, bodies up to 70 kB of different sizes) pass the SAME logger instance(s) (HAR, marbl, text logger, snapshots, or all three stacked), some logged on another goroutine, before they are forwarded - either all logged first and forwarded in a drawn order, or pipelined (message i forwarded after message i+1 was logged); each forwarded message is compared with its unlogged twin, each snapshot and each record the text logger emits re-parsed against its own message (framings mixed within a direction: chunked first, sized later), skip-logging judged per message; every sequence is repeated 3 times; non-trivial = at least two messages with a body",
	Gen:  genSeq, Run: runSeq,
	NonTrivial: func(sc SeqCase) bool { b, _, _ := seqSizes(sc); return b >= 2 },
	Classes:    seqClasses,
	Gates: map[string]float64{"nontrivial": 0.5, "later-smaller": 0.25, "later-larger": 0.25, "other-goroutine": 0.3, "pipeline": 0.3, "batch": 0.3,
		"logger-har": 0.15, "logger-text": 0.15, "logger-snapshot": 0.15, "logger-stack": 0.05, "chunked-then-sized-same-direction": 0.15},
}

func TestSequence(t *testing.T) {
	if kit.Race() {
		t.Skip("no shared state beyond the logger under test")
	}
	propSequence.Check(t, kit.N(700, 4000))
}
