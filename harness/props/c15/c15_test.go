// Package c15 decides property C15: logging and snapshotting never change the
// message that is forwarded.
//
// Oracle: differential twin. The generated wire bytes are parsed twice (as the
// proxy does, with net/http); one copy goes through the logger(s); both are
// serialised with Request.Write / Response.Write (what transport and proxy
// do) and must be byte-identical. A bare messageview snapshot must re-parse to
// a message equal to the generated description. With the skip-logging flag set
// none of the loggers may record anything.
package c15

import (
	"bufio"
	"bytes"
	"errors"
	"fmt"
	"io"
	"net/http"
	"net/textproto"
	"sort"
	"strings"
	"sync"
	"sync/atomic"
	"testing"
	"time"

	"github.com/google/martian/v3"
	"github.com/google/martian/v3/api"
	mlog "github.com/google/martian/v3/log"
	"github.com/google/martian/v3/martianlog"
	"github.com/google/martian/v3/messageview"
	"github.com/google/martian/v3/proxyutil"
	"pgregory.net/rapid"

	"verifharness/internal/kit"
	"verifharness/props/msggen"
)

// capture replaces martian's default log sink for the whole process: it
// discards everything unless a case installs a receiver (the text logger's
// DEFAULT log function writes through martian's log package).
type captureLogger struct {
	mu     sync.Mutex
	active func(string)
}

func (c *captureLogger) Infof(format string, args ...interface{}) {
	c.mu.Lock()
	f := c.active
	c.mu.Unlock()
	if f != nil {
		// what the stock logger does with its arguments: format them
		f(fmt.Sprintf(format, args...))
	}
}
func (c *captureLogger) Debugf(string, ...interface{}) {}
func (c *captureLogger) Errorf(string, ...interface{}) {}
func (c *captureLogger) set(f func(string)) {
	c.mu.Lock()
	c.active = f
	c.mu.Unlock()
}

var capture = &captureLogger{}

func TestMain(m *testing.M) {
	mlog.SetLogger(capture)
	kit.Main(m, "C15")
}

// HarOpt is a HAR body / post-data logging option.
type HarOpt = msggen.HarOpt

// Case is one message, one logger configuration.
type Case struct {
	Msg msggen.Spec `json:"msg"`
	// Logger: har | marbl | text | snapshot | stack (har, marbl and text in Order)
	Logger      string   `json:"logger"`
	Post        HarOpt   `json:"post"`
	Body        HarOpt   `json:"body"`
	HeadersOnly bool     `json:"headers_only,omitempty"`
	Decode      bool     `json:"decode,omitempty"`
	SnapSkip    string   `json:"snap_skip,omitempty"` // "" | all | unless
	SnapTypes   []string `json:"snap_types,omitempty"`
	Skip        bool     `json:"skip,omitempty"` // exchange marked skip-logging before the loggers see anything of it
	// SkipBetween (responses): the exchange is marked skip-logging after the
	// loggers handled its request and before they see the response (a request
	// modifier behind the logger, or a response modifier in front of it)
	SkipBetween bool `json:"skip_between,omitempty"`
	// Marks: what is done to the context at the point where the exchange is
	// marked, in this order: skip-logging | api-forwarder (the real
	// api.Forwarder: marks API request + skip-logging) | skip-round-trip |
	// api-request. Empty = skip-logging alone.
	Marks []string `json:"marks,omitempty"`
	// Built: the message is not read off the wire but built by a program
	// (http.NewRequest with a body it cannot size / proxyutil.NewResponse):
	// "cl0" leaves ContentLength at 0, "cl-1" sets it to -1. Applies to
	// Content-Length-framed messages with a body of at least one byte.
	Built string `json:"built,omitempty"`
	// SinkFail (marbl): the k-th Write of the log sink fails (1-based; 0 =
	// never); SinkFailForever: and every later one too. The exchange must
	// still be forwarded, identically, within the liveness bound.
	SinkFail        int  `json:"sink_fail,omitempty"`
	SinkFailForever bool `json:"sink_fail_forever,omitempty"`
	// DefaultSink (text logger): the logger keeps its default log function
	// (martian's log.Infof) instead of an injected one.
	DefaultSink bool `json:"default_sink,omitempty"`
	// NilBody (responses without a body): Response.Body is nil, as a modifier
	// that builds a response may leave it.
	NilBody bool  `json:"nil_body,omitempty"`
	Unknown bool  `json:"unknown,omitempty"` // request only: an upstream modifier made the length unknown (-1)
	Proxy   bool  `json:"proxy,omitempty"`   // forward with WriteProxy instead of Write
	Order   []int `json:"order,omitempty"`   // stack: permutation of 0=har 1=marbl 2=text
}

// ---------------------------------------------------------------- plumbing

type twin struct {
	req    *http.Request
	res    *http.Response
	remove func()
	ctx    *martian.Context
}

// opaque hides the concrete type of a reader: net/http (and whoever builds
// the message) cannot size the body.
type opaque struct{ io.Reader }

// nilBodyApplies: only a response that carries nothing can have a nil Body.
func nilBodyApplies(c Case, m *msggen.Message) bool {
	return c.NilBody && m.Spec.Response && len(m.Entity) == 0
}

// builtApplies: a message is built by a program (instead of parsed) only if it
// is not chunked and has a body of at least one byte.
func builtApplies(built string, m *msggen.Message) bool {
	return built != "" && m.Framing == "cl" && m.BodyOnWire && len(m.Entity) > 0 && !(m.Spec.Response == false && m.Spec.Proto10)
}

// build constructs the message the way a program does: http.NewRequest with a
// body it cannot size, proxyutil.NewResponse(code, body, req) as the proxy and
// its modifiers do; ContentLength is left at 0 (built == "cl0": net/http reads
// that, with a non-nil Body, as unknown) or set to -1 (built == "cl-1").
func build(m *msggen.Message, built string) (*twin, error) {
	t := &twin{}
	add := func(h http.Header) {
		for _, x := range m.Headers {
			switch textproto.CanonicalMIMEHeaderKey(x.Name) {
			case "Content-Length", "Host":
			default:
				h.Add(x.Name, x.Value)
			}
		}
	}
	if !m.Spec.Response {
		req, err := http.NewRequest(m.Method, m.URL, opaque{bytes.NewReader(m.Entity)})
		if err != nil {
			return nil, err
		}
		add(req.Header)
		req.RemoteAddr = "127.0.0.1:54321"
		if built == "cl-1" {
			req.ContentLength = -1
		}
		t.req = req
	} else {
		req, err := http.NewRequest(m.Spec.ReqMethod, "http://example.com/answered", nil)
		if err != nil {
			return nil, err
		}
		if m.Spec.Proto10 {
			req.Proto, req.ProtoMinor = "HTTP/1.0", 0
		}
		res := proxyutil.NewResponse(m.Status, opaque{bytes.NewReader(m.Entity)}, req)
		add(res.Header)
		if built == "cl-1" {
			res.ContentLength = -1
		}
		t.req, t.res = req, res
	}
	ctx, remove, err := martian.TestContext(t.req, nil, nil)
	if err != nil {
		return nil, err
	}
	t.ctx, t.remove = ctx, remove
	return t, nil
}

func parse(m *msggen.Message, unknown bool, built string) (*twin, error) {
	if builtApplies(built, m) {
		return build(m, built)
	}
	t := &twin{}
	br := bufio.NewReader(bytes.NewReader(m.Wire))
	if !m.Spec.Response {
		req, err := http.ReadRequest(br)
		if err != nil {
			return nil, err
		}
		// what proxy.go does before the modifiers run
		req.URL.Scheme = "http"
		if req.URL.Host == "" {
			req.URL.Host = req.Host
		}
		req.RemoteAddr = "127.0.0.1:54321"
		if unknown {
			req.ContentLength = -1
			req.Header.Del("Content-Length")
		}
		t.req = req
	} else {
		req, err := http.NewRequest(m.Spec.ReqMethod, "http://example.com/answered", nil)
		if err != nil {
			return nil, err
		}
		res, err := http.ReadResponse(br, req)
		if err != nil {
			return nil, err
		}
		t.req, t.res = req, res
	}
	ctx, remove, err := martian.TestContext(t.req, nil, nil)
	if err != nil {
		return nil, err
	}
	t.ctx, t.remove = ctx, remove
	return t, nil
}

func (t *twin) write(proxy bool) (out []byte, err error) {
	var buf bytes.Buffer
	defer func() {
		if r := recover(); r != nil {
			out, err = buf.Bytes(), fmt.Errorf("panic while the message is written: %v", r)
		}
	}()
	switch {
	case t.res != nil:
		err = t.res.Write(&buf)
	case proxy:
		err = t.req.WriteProxy(&buf)
	default:
		err = t.req.Write(&buf)
	}
	return buf.Bytes(), err
}

// countWriter is the marbl sink: it keeps nothing but the number of bytes.
type countWriter struct {
	failAt  int64 // the failAt-th Write fails (0 = never)
	forever bool  // ... and all later ones
	calls   int64
	n       int64
	mu      sync.Mutex
	ids     map[string]int // frames per exchange: bytes 2..10 of a marbl frame are the first 8 characters of the context ID
}

func (w *countWriter) Write(p []byte) (int, error) {
	if k := atomic.AddInt64(&w.calls, 1); w.failAt > 0 && (k == w.failAt || (w.forever && k > w.failAt)) {
		return 0, errors.New("log sink: write failed")
	}
	atomic.AddInt64(&w.n, int64(len(p)))
	if len(p) >= 10 {
		w.mu.Lock()
		if w.ids == nil {
			w.ids = map[string]int{}
		}
		w.ids[string(p[2:10])]++
		if p[1] == 2 { // message type: 1 request, 2 response
			w.ids["res:"+string(p[2:10])]++
		}
		w.mu.Unlock()
	}
	return len(p), nil
}

// resFrames is the number of response frames written for the exchange.
func (w *countWriter) resFrames(id string) int {
	w.mu.Lock()
	defer w.mu.Unlock()
	return w.ids["res:"+id[:8]]
}

// frames is the number of frames written for the exchange with this context ID.
func (w *countWriter) frames(id string) int {
	w.mu.Lock()
	defer w.mu.Unlock()
	return w.ids[id[:8]]
}

// ---------------------------------------------------------------- shapes and classes

func forwardShape(c Case, m *msggen.Message) string {
	side := "request"
	if m.Spec.Response {
		side = "response"
	}
	switch {
	case nilBodyApplies(c, m):
		return side + "-nil-body"
	case !m.BodyOnWire || (len(m.Entity) == 0 && m.Framing != "chunked" && m.Framing != "close"):
		return side + "-without-body"
	case builtApplies(c.Built, m):
		return side + "-built-without-length"
	case m.Spec.Body.Kind == "badform":
		return side + "-unparseable-form"
	case c.Unknown:
		return side + "-unknown-length"
	case m.TrailerPresent:
		return side + "-chunked-with-trailers"
	}
	return side + "-" + m.Framing
}

func snapshotShape(m *msggen.Message) string {
	if m.Method == "CONNECT" {
		return "connect-request"
	}
	if m.Target == "*" {
		return "options-asterisk"
	}
	if m.TrailerPresent {
		return m.Framing + "-with-trailers"
	}
	if !m.BodyOnWire {
		return "without-body"
	}
	return m.Framing
}

// outMsg is a serialised message split into the parts that matter on the
// wire: the head verbatim, the body with the chunk framing removed (where Go's
// chunk writer puts the chunk boundaries depends on the size of the reads and
// carries no meaning), and the trailer section verbatim.
type outMsg struct {
	head    []byte
	chunked bool
	body    []byte
	trailer []byte
	err     error
}

func split(wire []byte, bodyless bool) outMsg {
	var o outMsg
	i := bytes.Index(wire, []byte("\r\n\r\n"))
	if i < 0 {
		o.err = fmt.Errorf("no end of head")
		return o
	}
	o.head = wire[:i+4]
	rest := wire[i+4:]
	for _, l := range strings.Split(string(o.head), "\r\n") {
		if strings.EqualFold(l, "Transfer-Encoding: chunked") {
			o.chunked = true
		}
	}
	if !o.chunked || (bodyless && len(rest) == 0) {
		// an answer to HEAD announces its framing and carries nothing
		o.body = rest
		return o
	}
	o.body = []byte{}
	for {
		j := bytes.Index(rest, []byte("\r\n"))
		if j < 0 {
			o.err = fmt.Errorf("chunk size line not terminated")
			return o
		}
		var n int
		if _, err := fmt.Sscanf(strings.SplitN(string(rest[:j]), ";", 2)[0], "%x", &n); err != nil {
			o.err = fmt.Errorf("bad chunk size %q", rest[:j])
			return o
		}
		rest = rest[j+2:]
		if n == 0 {
			break
		}
		if len(rest) < n+2 || string(rest[n:n+2]) != "\r\n" {
			o.err = fmt.Errorf("chunk of %d bytes not terminated", n)
			return o
		}
		o.body = append(o.body, rest[:n]...)
		rest = rest[n+2:]
	}
	if !bytes.HasSuffix(rest, []byte("\r\n")) {
		o.err = fmt.Errorf("trailer section not terminated: %q", rest)
		return o
	}
	o.trailer = rest
	return o
}

func (o outMsg) lines(b []byte) []string {
	ls := strings.Split(strings.TrimSuffix(string(b), "\r\n"), "\r\n")
	sort.Strings(ls)
	return ls
}

func multiset(h http.Header) []string {
	var out []string
	for k, vs := range h {
		for _, v := range vs {
			out = append(out, k+": "+v)
		}
	}
	sort.Strings(out)
	return out
}

// sameOnWire compares two serialisations up to chunk boundaries.
//
// noTrailers: the trailer fields of the message are not announced by a
// 'Trailer:' header. net/http's writer then forwards them only if the body
// happened to be read to EOF before the write started (it copies
// Request.Trailer when the write begins), so whether they are forwarded is
// net/http's business, not the logger's: the 'Trailer:' line and the trailer
// section are left out of the comparison.
func sameOnWire(want, got []byte, bodyless, noTrailers bool) (bool, string) {
	if bytes.Equal(want, got) {
		return true, ""
	}
	w, g := split(want, bodyless), split(got, bodyless)
	if noTrailers && w.err == nil && g.err == nil {
		strip := func(o *outMsg) {
			var keep []string
			for _, l := range strings.Split(string(o.head), "\r\n") {
				if !strings.HasPrefix(l, "Trailer: ") {
					keep = append(keep, l)
				}
			}
			o.head, o.trailer = []byte(strings.Join(keep, "\r\n")), nil
		}
		strip(&w)
		strip(&g)
	}
	switch {
	case w.err != nil:
		return false, "control-output-malformed"
	case g.err != nil:
		return false, "output-malformed"
	case !w.chunked && g.chunked:
		return false, "reframed-as-chunked"
	case w.chunked && !g.chunked:
		return false, "reframed-as-content-length"
	case !bytes.Equal(w.head, g.head):
		if strings.Join(w.lines(w.head), "\n") == strings.Join(g.lines(g.head), "\n") {
			return false, "header-order-differs"
		}
		return false, "head-differs"
	case !bytes.Equal(w.body, g.body):
		return false, "body-differs"
	case !bytes.Equal(w.trailer, g.trailer):
		return false, "trailers-differ"
	}
	return true, ""
}

func head(b []byte) string {
	if i := bytes.Index(b, []byte("\r\n\r\n")); i >= 0 {
		b = b[:i]
	}
	if len(b) > 600 {
		b = b[:600]
	}
	return fmt.Sprintf("%q", b)
}

func descHeaders(hs []msggen.Header, skip ...string) []string {
	var out []string
next:
	for _, h := range hs {
		k := textproto.CanonicalMIMEHeaderKey(h.Name)
		for _, s := range skip {
			if k == s {
				continue next
			}
		}
		out = append(out, k+": "+h.Value)
	}
	sort.Strings(out)
	return out
}

func withoutKeys(h http.Header, skip ...string) http.Header {
	out := http.Header{}
	for k, vs := range h {
		out[k] = vs
	}
	for _, s := range skip {
		delete(out, s)
	}
	return out
}

// ---------------------------------------------------------------- the check

// run decides one case. With a failing log sink the whole exchange runs under
// the liveness bound: a logger that stops forwarding is a failure, not a hang.
func run(c Case) kit.Verdict {
	if c.SinkFail == 0 {
		return runCase(c)
	}
	ch := make(chan kit.Verdict, 1)
	go func() {
		defer func() {
			if r := recover(); r != nil {
				ch <- kit.Failf("C15/panic/forward", "panic: %v", r)
			}
		}()
		ch <- runCase(c)
	}()
	select {
	case v := <-ch:
		return v
	case <-time.After(kit.T()):
	}
	select {
	case v := <-ch:
		kit.Inconclusive("forward")
		return v
	case <-time.After(3 * kit.T()):
	}
	return kit.Failf("C15/forward/marbl/sink-write-error/exchange-never-forwarded", "write %d of the marbl log sink failed (forever=%v); %v later the exchange has still not been logged and serialised: the logger blocks the forwarded message", c.SinkFail, c.SinkFailForever, 4*kit.T())
}

func runCase(c Case) (v kit.Verdict) {
	m := msggen.Build(c.Msg)
	ctl, err := parse(m, c.Unknown, c.Built)
	if err != nil {
		return kit.Failf("C15/harness/generated-message-unparseable", "net/http cannot parse the generated message: %v\n%s", err, head(m.Wire))
	}
	defer ctl.remove()
	sub, err := parse(m, c.Unknown, c.Built)
	if err != nil {
		return kit.Failf("C15/harness/generated-message-unparseable", "second parse: %v", err)
	}
	defer sub.remove()
	if nilBodyApplies(c, m) {
		ctl.res.Body, sub.res.Body = nil, nil
	}
	if c.Skip {
		mark(c, ctl, sub)
	}

	// One instance of each logger. For a response the loggers first handle the
	// answered request (the exchange has a request phase), then the response.
	ls := newLogset(c.Post, c.Body, c.HeadersOnly, c.Decode)
	ls.mw.failAt, ls.mw.forever = int64(c.SinkFail), c.SinkFailForever
	if c.DefaultSink {
		// a logger left with its default log function writes through martian's log package
		ls.text = martianlog.NewLogger()
		ls.text.SetHeadersOnly(c.HeadersOnly)
		ls.text.SetDecode(c.Decode)
		capture.set(func(line string) {
			if strings.Contains(line, strings.Repeat("-", 80)) {
				ls.record(line)
			}
		})
		defer capture.set(nil)
	}
	names := loggerNames(c.Logger, c.Order)
	type logErr struct {
		name string
		err  error
	}
	var errs []logErr
	note := func(err error) {
		if err != nil {
			kit.Note("forward", "a logger returned an error on some generated message")
		}
	}
	if sub.res != nil {
		for _, name := range names {
			note(ls.applyReq(name, sub))
		}
	}
	var textBase int64
	if c.SkipBetween && sub.res != nil {
		mark(c, ctl, sub)
		textBase = ls.count("text")
	}
	for _, name := range names {
		before := ls.count(name)
		if err := ls.applyMsg(name, sub); err != nil {
			note(err)
			errs = append(errs, logErr{name, err})
		}
		if name == "text" && ls.count(name) == before+1 {
			// the record just emitted must be this message
			rec := ls.lastRecord()
			if i := strings.Index(rec, "(MISSING)"); c.DefaultSink && i >= 3 && !bytes.Contains(m.Wire, []byte("(MISSING)")) {
				i -= 3
				v.Addf("C15/text-log/default-sink/percent-sign-rendered-as-format-verb", "the text logger's default log function passes the record as a FORMAT string: a '%%' of the message comes out as %q", rec[i:min(len(rec), i+24)])
			} else {
				v = append(v, verifyTextRecord(c, m, sub, rec)...)
			}
		}
	}
	if c.Logger == "snapshot" {
		v = append(v, snapshot(c, m, sub)...)
	}
	skipped := func() kit.Verdict { return skipCheck(c, ls, names, sub, textBase) }
	// A modifier error is not silent: proxy.go answers it with a 'Warning: 199
	// "martian" ...' header on the message it forwards (proxyutil.Warning). A
	// logger that fails on a message therefore changes the forwarded message.
	for _, e := range errs {
		v.Addf("C15/forward/"+e.name+"/"+errorCause(c, m, e.name)+"/logger-error-warning-header", "the %s logger returned %q for this message; the proxy then adds a Warning header to the message it forwards", e.name, e.err)
	}

	// forwarded bytes: subject versus unlogged control
	//
	// One case must not be decided by writing: a bodyless GET/HEAD/DELETE/
	// OPTIONS whose http.NoBody was replaced by another (empty) reader. For
	// those methods net/http probes the body for 200 ms before it chooses the
	// framing, so the forwarded bytes depend on the scheduler (seen under
	// load: "Transfer-Encoding: chunked" on a GET). The replacement itself is
	// the defect; POST/PUT/PATCH show it in the bytes on every run.
	if sub.res == nil && ctl.req.Body == http.NoBody && sub.req.Body != http.NoBody && sub.req.Body != nil && probed(sub.req.Method) {
		n := len(v)
		if c.Logger == "stack" {
			for _, name := range []string{"har", "marbl", "text"} {
				c1 := c
				c1.Logger, c1.Order = name, nil
				for _, f := range run(c1) {
					if strings.HasPrefix(f.Sig, "C15/forward/") {
						v = append(v, f)
					}
				}
			}
		}
		if len(v) == n {
			v.Addf("C15/forward/"+c.Logger+"/request-without-body/reframed-as-chunked",
				"the logger replaced http.NoBody of a bodyless %s by %T: net/http now has to probe the body and forwards the request with 'Transfer-Encoding: chunked' whenever the probe takes longer than 200 ms (always for POST/PUT/PATCH)", sub.req.Method, sub.req.Body)
		}
		return append(v, skipped()...)
	}
	want, werr := ctl.write(c.Proxy)
	got, gerr := sub.write(c.Proxy)
	shape := forwardShape(c, m)
	bodyless := m.Spec.Response && m.Spec.ReqMethod == "HEAD"
	if werr != nil {
		v.Addf("C15/harness/control-not-writable", "the unlogged twin cannot be serialised: %v", werr)
	} else if gerr != nil {
		v.Addf("C15/forward/"+c.Logger+"/"+shape+"/write-error", "after logging, serialising the message fails: %v (the unlogged twin is written without error)", gerr)
	} else if same, class := sameOnWire(want, got, bodyless, m.Spec.TrailersUnannounced); !same {
		// a stack is the three loggers in a row: attribute the difference to
		// the single logger(s) that produce it alone; only a difference that
		// none of them produces alone is reported against the stack itself
		var single kit.Verdict
		if c.Logger == "stack" {
			for _, name := range []string{"har", "marbl", "text"} {
				c1 := c
				c1.Logger, c1.Order = name, nil
				for _, f := range run(c1) {
					if strings.HasPrefix(f.Sig, "C15/forward/") {
						single = append(single, f)
					}
				}
			}
		}
		if len(single) > 0 {
			v = append(v, single...)
		} else {
			v.Addf("C15/forward/"+c.Logger+"/"+shape+"/"+class,
				"forwarded bytes differ from the unlogged twin (%s): %s\nunlogged head: %s\nlogged head:   %s", class, kit.Diff(want, got), head(want), head(got))
		}
	}
	// the control itself must carry what was generated (guards the harness and
	// the differential oracle against a loss common to both twins)
	if werr == nil && !bodyless && !m.Spec.TrailersUnannounced {
		o := split(want, bodyless)
		var tr []string
		if len(o.trailer) > 2 {
			tr = o.lines(o.trailer[:len(o.trailer)-2])
		}
		wantBody := m.Entity
		if o.err != nil || !bytes.Equal(o.body, wantBody) || strings.Join(tr, "\n") != strings.Join(descHeaders(m.Trailers), "\n") {
			v.Addf("C15/harness/control-differs-from-description", "the unlogged twin does not carry the generated body/trailers: err=%v body %s trailers=%q want %q", o.err, kit.Diff(wantBody, o.body), tr, descHeaders(m.Trailers))
		}
	}

	v = append(v, skipped()...)
	return v
}

// mark marks the exchange skip-logging, together with the other context
// marks of the case in their drawn order: no other mark may undo it. The
// forwarder also rewrites the request URL, so the unlogged twin passes it too.
func mark(c Case, ctl, sub *twin) {
	marks := c.Marks
	if len(marks) == 0 {
		marks = []string{"skip-logging"}
	}
	for _, mk := range marks {
		switch mk {
		case "skip-logging":
			sub.ctx.SkipLogging()
		case "skip-round-trip":
			sub.ctx.SkipRoundTrip()
		case "api-request":
			sub.ctx.APIRequest()
		case "api-forwarder":
			f := api.NewForwarder("localhost", 8181)
			f.ModifyRequest(ctl.req)
			f.ModifyRequest(sub.req)
		}
	}
}

// errorCause names what about the message a logger is most likely to have
// stumbled over (the triggering shape of the signature).
func errorCause(c Case, m *msggen.Message, name string) string {
	switch {
	case nilBodyApplies(c, m):
		return "response-nil-body"
	case name == "text" && c.HeadersOnly && c.Decode && m.Framing == "chunked" && m.Encoding != "":
		return "headers-only-decode-of-chunked-coded-message"
	case m.Spec.Body.Kind == "badform" && !m.Spec.Response:
		return "unparseable-form"
	case m.Spec.Encoding == "gzip-bad":
		return "mislabelled-content-coding"
	case m.Spec.Encoding == "gzip-padded" || m.Spec.Encoding == "gzip-truncated" || m.Spec.Encoding == "deflate-bad":
		return "content-coding-fails-mid-stream"
	case m.Spec.Encoding == "deflate-zlib":
		return "zlib-deflate"
	case m.BadQuery:
		return "query-rejected-by-net-url"
	}
	return forwardShape(c, m)
}

// probed lists the methods for which net/http decides the framing of a
// request with a body of unknown length by a timed read (transfer.go,
// requestMethodUsuallyLacksBody).
func probed(method string) bool {
	switch method {
	case "GET", "HEAD", "DELETE", "OPTIONS", "PROPFIND", "SEARCH":
		return true
	}
	return false
}

// skipCheck: an exchange marked skip-logging is recorded by none of the
// loggers. What was logged before the mark was set cannot be un-logged: for a
// mark set between the request and the response phase the claim is that
// nothing is recorded from then on - no response on the HAR entry, no call of
// the text logger's sink, no response frame on the marbl stream.
func skipCheck(c Case, ls *logset, names []string, sub *twin, textBase int64) (v kit.Verdict) {
	for _, name := range names {
		if c.Skip && ls.count(name) > 0 {
			if len(c.Marks) > 1 {
				v.Addf("C15/skip-logging/"+name+"/recorded-after-another-context-mark", "the context was marked %v, yet the %s logger recorded the exchange (skipping=%v)", c.Marks, name, sub.ctx.SkippingLogging())
			} else {
				v.Addf("C15/skip-logging/"+name+"/recorded", "the exchange is marked skip-logging, yet the %s logger recorded it", name)
			}
		}
		if !c.SkipBetween || c.Skip || sub.res == nil {
			continue
		}
		switch name {
		case "har":
			for _, e := range ls.har.Export().Log.Entries {
				if e.Response != nil {
					v.Addf("C15/skip-logging/har/response-recorded-after-mark", "the exchange was marked skip-logging after its request was logged, yet the HAR entry has a response (status %d, %d bytes of content)", e.Response.Status, len(e.Response.Content.Text))
				}
			}
		case "text":
			if n := ls.count("text"); n != textBase {
				v.Addf("C15/skip-logging/text/response-recorded-after-mark", "the exchange was marked skip-logging after its request was logged, yet the text logger wrote %d more record(s)", n-textBase)
			}
		case "marbl":
			// frames are written by the stream's goroutine: judged by the frames
			// themselves (message type response, ID of this exchange), of which a
			// recorded response has at least four
			if n := ls.mw.resFrames(sub.ctx.ID()); n > 0 {
				v.Addf("C15/skip-logging/marbl/response-recorded-after-mark", "the exchange was marked skip-logging after its request was logged, yet the marbl stream holds %d response frames for it", n)
			}
		}
	}
	return v
}

func snapshot(c Case, m *msggen.Message, sub *twin) (v kit.Verdict) {
	mv, captured, claims, v := takeSnapshot(c, m, sub)
	if !claims {
		return v
	}
	return verifySnapshot(c, m, sub, mv, captured)
}

// takeSnapshot snapshots the subject. claims is false when nothing can be
// said about the snapshot (error already reported, unspecified option match,
// request of unknown length).
func takeSnapshot(c Case, m *msggen.Message, sub *twin) (mv *messageview.MessageView, captured, claims bool, v kit.Verdict) {
	mv = messageview.New()
	captured = true
	switch c.SnapSkip {
	case "all":
		mv.SkipBody(true)
		captured = false
	case "unless":
		mv.SkipBodyUnlessContentType(c.SnapTypes...)
		captured = false
		unspecified := false
		for _, ct := range c.SnapTypes {
			if strings.HasPrefix(m.ContentType, ct) {
				captured = true
			} else if strings.HasPrefix(strings.ToLower(m.ContentType), strings.ToLower(ct)) {
				unspecified = true // whether this counts as a match is not specified: no snapshot claims
			}
		}
		if unspecified && !captured {
			if sub.res == nil {
				mv.SnapshotRequest(sub.req)
			} else {
				mv.SnapshotResponse(sub.res)
			}
			return mv, false, false, nil
		}
	}
	var err error
	if sub.res == nil {
		err = mv.SnapshotRequest(sub.req)
	} else {
		err = mv.SnapshotResponse(sub.res)
	}
	if err != nil {
		return mv, captured, false, kit.Failf("C15/snapshot/"+snapshotShape(m)+"/snapshot-error", "snapshot of a well-formed message failed: %v", err)
	}
	// no HTTP/1.x serialisation of a request of unknown length exists
	// ... nor of a message whose length field says nothing about its body
	return mv, captured, !builtApplies(c.Built, m), nil
}

// verifySnapshot re-parses Reader() and compares it with the description.
func verifySnapshot(c Case, m *msggen.Message, sub *twin, mv *messageview.MessageView, captured bool) (v kit.Verdict) {
	shape := snapshotShape(m)
	rd, err := mv.Reader()
	if err != nil {
		return kit.Failf("C15/snapshot/"+shape+"/reader-error", "Reader(): %v", err)
	}
	raw, err := io.ReadAll(rd)
	if err != nil {
		return kit.Failf("C15/snapshot/"+shape+"/reader-error", "reading Reader(): %v", err)
	}
	tb, _ := io.ReadAll(mv.TrailerReader())
	if tb == nil {
		tb = []byte{}
	}
	return verifyRaw("C15/snapshot/", m, sub, raw, tb, captured, c.Unknown)
}

// textSnapshot cuts the message out of a record of the text logger:
// "\n" 80x"-" "\n" title "\n" 80x"-" "\n" <message> "\n" 80x"-" "\n".
func textSnapshot(record string) ([]byte, bool) {
	rule := strings.Repeat("-", 80) + "\n"
	i := strings.Index(record, rule)
	if i < 0 {
		return nil, false
	}
	j := strings.Index(record[i+len(rule):], rule)
	if j < 0 {
		return nil, false
	}
	rest := record[i+len(rule)+j+len(rule):]
	if !strings.HasSuffix(rest, "\n"+rule) {
		return nil, false
	}
	return []byte(strings.TrimSuffix(rest, "\n"+rule)), true
}

// verifyTextRecord: without the decode option the text logger emits the
// snapshot of the message; it must be that message. Messages with trailers are
// left to the snapshot clause (open finding: no blank line after trailers).
func verifyTextRecord(c Case, m *msggen.Message, sub *twin, record string) kit.Verdict {
	if c.Decode || m.TrailerPresent || builtApplies(c.Built, m) {
		return nil
	}
	raw, ok := textSnapshot(record)
	if !ok {
		return kit.Failf("C15/text-log/"+snapshotShape(m)+"/record-malformed", "the text record does not have the documented layout: %.200q", record)
	}
	return verifyRaw("C15/text-log/", m, sub, raw, nil, !c.HeadersOnly, c.Unknown)
}

// verifyRaw re-parses an emitted snapshot and compares it with the
// description. trailerSection is the raw trailer block when known.
func verifyRaw(clause string, m *msggen.Message, sub *twin, raw, trailerSection []byte, captured, unknown bool) (v kit.Verdict) {
	shape := snapshotShape(m)
	if unknown {
		shape = "request-of-unknown-length"
	}
	// What goes wrong in the trailer section of a chunked message is named by
	// that shape whatever else the message is (OPTIONS *, CONNECT, ...): the
	// open finding on the unterminated trailer section has one signature.
	tshape := shape
	if m.TrailerPresent {
		tshape = m.Framing + "-with-trailers"
	}
	// fields net/http moves out of the header map are looked for in the bytes
	var lines []string
	if i := bytes.Index(raw, []byte("\r\n\r\n")); i >= 0 {
		lines = strings.Split(string(raw[:i]), "\r\n")[1:]
	}
	rawValue := func(name string) (string, bool) {
		for _, l := range lines {
			if len(l) > len(name)+1 && strings.EqualFold(l[:len(name)+1], name+":") {
				return strings.TrimSpace(l[len(name)+1:]), true
			}
		}
		return "", false
	}
	descValue := func(name string) (string, bool) {
		for _, h := range m.Headers {
			if strings.EqualFold(h.Name, name) {
				return h.Value, true
			}
		}
		return "", false
	}
	// (a response delimited by the end of the connection has Close set with and
	// without the header: nothing can be asked of its snapshot)
	// The connection options are compared as a set: net/http may hold "close"
	// in the Close field next to a Connection header that names it too, so the
	// snapshot can list an option twice; it must not lose or invent one.
	options := func(values []string) string {
		set := map[string]bool{}
		for _, val := range values {
			for _, o := range strings.Split(val, ",") {
				// (an HTTP/1.0 message without keep-alive closes the connection
				// whether or not it says so: "close" is not compared there)
				if o = strings.ToLower(strings.TrimSpace(o)); o != "" && !(o == "close" && m.Spec.Proto10) {
					set[o] = true
				}
			}
		}
		var out []string
		for o := range set {
			out = append(out, o)
		}
		sort.Strings(out)
		return strings.Join(out, ",")
	}
	var wantConn, gotConn []string
	for _, h := range m.Headers {
		if strings.EqualFold(h.Name, "Connection") {
			wantConn = append(wantConn, h.Value)
		}
	}
	for _, l := range lines {
		if len(l) > 11 && strings.EqualFold(l[:11], "Connection:") {
			gotConn = append(gotConn, l[11:])
		}
	}
	if want, got := options(wantConn), options(gotConn); len(wantConn) > 0 && m.Framing != "close" && want != got {
		if want == "close" && got == "" {
			v.Addf(clause+"connection-close/header-dropped", "the message carries 'Connection: close' (net/http keeps it in the Close field and forwards it), the snapshot has no such line: %s", head(raw))
		} else {
			v.Addf(clause+"connection-options/options-differ", "the message has the connection options {%s}, the snapshot {%s}: %s", want, got, head(raw))
		}
	}
	if want, ok := descValue("Trailer"); ok {
		if _, has := rawValue("Trailer"); !has {
			v.Addf(clause+"trailers-announced/announcement-dropped", "the message announces its trailers ('Trailer: %s', forwarded by net/http), the snapshot has no Trailer line", want)
		}
	}
	if !unknown {
		want, announced := descValue("Content-Length")
		got, has := rawValue("Content-Length")
		switch {
		case announced && has && got != want && !m.BodyOnWire:
			v.Addf(clause+"bodyless-response/content-length-differs", "the message says 'Content-Length: %s', the snapshot 'Content-Length: %s'", want, got)
		case !announced && has && m.Spec.Response && (m.Status == 204 || m.Status == 304 || m.Status/100 == 1):
			// (a bodyless request with an added 'Content-Length: 0' means the same as without)
			v.Addf(clause+"bodyless-response/content-length-invented", "a %d response without Content-Length gets 'Content-Length: %s' in the snapshot", m.Status, got)
		}
	}
	br := bufio.NewReader(bytes.NewReader(raw))
	var (
		hdr      http.Header
		trailer  *http.Header
		body     io.ReadCloser
		cl       int64
		te       []string
		startGot string
		startExp string
		wantCL   int64
		wantTE   []string
	)
	if sub.res == nil {
		req, err := http.ReadRequest(br)
		if err != nil {
			return kit.Failf(clause+shape+"/not-reparseable", "the snapshot is not a parseable request: %v\n%s", err, head(raw))
		}
		hdr, trailer, body, cl, te = req.Header, &req.Trailer, req.Body, req.ContentLength, req.TransferEncoding
		startGot = fmt.Sprintf("%s %s %s host=%s", req.Method, req.RequestURI, req.Proto, req.Host)
		// the snapshot writes the URL of the message it was given (made absolute by the proxy)
		target := m.URL
		if m.Method == "CONNECT" || m.Target == "*" {
			target = m.Target // authority form, asterisk form
		}
		startExp = fmt.Sprintf("%s %s %s host=%s", m.Method, target, m.Proto, m.Host)
		wantCL, wantTE = sub.req.ContentLength, sub.req.TransferEncoding
		if unknown {
			// forwarded chunked by net/http: the only HTTP/1.1 serialisation there is
			wantCL, wantTE = -1, []string{"chunked"}
		}
	} else {
		res, err := http.ReadResponse(br, sub.req)
		if err != nil {
			return kit.Failf(clause+shape+"/not-reparseable", "the snapshot is not a parseable response: %v\n%s", err, head(raw))
		}
		hdr, trailer, body, cl, te = res.Header, &res.Trailer, res.Body, res.ContentLength, res.TransferEncoding
		startGot = fmt.Sprintf("%s %d %s", res.Proto, res.StatusCode, res.Status)
		startExp = fmt.Sprintf("%s %d %d %s", m.Proto, m.Status, m.Status, m.Reason)
		wantCL, wantTE = sub.res.ContentLength, sub.res.TransferEncoding
	}
	if sub.res == nil {
		// net/http takes the host of an absolute request target from the target:
		// the Host line itself has to be looked for in the bytes
		hostLine := false
		if i := bytes.Index(raw, []byte("\r\n\r\n")); i >= 0 {
			for _, l := range strings.Split(string(raw[:i]), "\r\n")[1:] {
				if strings.EqualFold(l, "Host: "+m.Host) {
					hostLine = true
				}
			}
		}
		if !hostLine {
			v.Addf(clause+shape+"/host-header-missing", "the snapshot has no 'Host: %s' line: %s", m.Host, head(raw))
		}
	}
	if startGot != startExp {
		v.Addf(clause+shape+"/start-line-differs", "snapshot start line %q, message %q", startGot, startExp)
	}
	gotH := multiset(withoutKeys(hdr, "Content-Length", "Connection"))
	wantH := descHeaders(m.Headers, "Content-Length", "Transfer-Encoding", "Trailer", "Host", "Connection")
	if strings.Join(gotH, "\n") != strings.Join(wantH, "\n") {
		v.Addf(clause+shape+"/headers-differ", "snapshot headers %q, message headers %q", gotH, wantH)
	}
	if cl != wantCL || strings.Join(te, ",") != strings.Join(wantTE, ",") {
		v.Addf(clause+shape+"/framing-differs", "snapshot re-parses with length %d transfer-encoding %v, the message has %d %v", cl, te, wantCL, wantTE)
		if unknown {
			return v // without a framing the body bytes of the snapshot are not a body
		}
	}
	if !captured {
		return v
	}
	// the trailer block itself, whether or not the whole snapshot re-parses
	// (announced or not: a message read to EOF knows its trailers)
	if tb := trailerSection; tb != nil {
		var got []string
		for _, l := range strings.Split(string(tb), "\r\n") {
			if l != "" {
				got = append(got, l)
			}
		}
		sort.Strings(got)
		if want := descHeaders(m.Trailers); strings.Join(got, "\n") != strings.Join(want, "\n") {
			v.Addf(clause+tshape+"/trailer-section-differs", "the snapshot's trailer section holds %q, the message carries %q", got, want)
		}
	}
	data, err := io.ReadAll(body)
	if err != nil {
		v.Addf(clause+tshape+"/not-reparseable", "reading the body of the re-parsed snapshot fails: %v (tail of the snapshot: %q)", err, raw[max(0, len(raw)-60):])
		return v
	}
	if !bytes.Equal(data, m.Entity) {
		v.Addf(clause+shape+"/body-differs", "snapshot body: %s", kit.Diff(m.Entity, data))
	}
	if got, want := multiset(*trailer), descHeaders(m.Trailers); strings.Join(got, "\n") != strings.Join(want, "\n") {
		v.Addf(clause+tshape+"/trailers-differ", "snapshot trailers %q, message trailers %q", got, want)
	}
	return v
}

// ---------------------------------------------------------------- generation

var ctPrefixes = msggen.CTPrefixes

func drawHarOpt(t *rapid.T, label string) HarOpt { return msggen.DrawHarOpt(t, label) }

func maxBody() int {
	if kit.Thorough() {
		return 4 << 20
	}
	return 1 << 20
}

func gen(t *rapid.T) Case {
	c := Case{Logger: rapid.SampledFrom([]string{"har", "marbl", "text", "snapshot", "stack"}).Draw(t, "logger")}
	o := msggen.Options{MaxBody: maxBody(), Corrupt: true, Unannounced: true, BadForms: true, RawQuery: true, Reasons: true, MoreCodings: true, Connect: true, ConnClose: true, Asterisk: true, Meta304: true}
	if rapid.Bool().Draw(t, "response") {
		c.Msg = msggen.DrawResponse(t, o, rapid.SampledFrom([]string{"GET", "GET", "POST", "HEAD"}).Draw(t, "req_method"))
	} else {
		c.Msg = msggen.DrawRequest(t, o)
		c.Proxy = rapid.Bool().Draw(t, "write_proxy")
		if c.Msg.Framing == "cl" && c.Msg.Body.Kind != "none" {
			c.Unknown = rapid.IntRange(0, 7).Draw(t, "unknown_length") == 0
		}
	}
	if c.Msg.Framing == "cl" && c.Msg.Body.Kind != "none" && !c.Unknown && rapid.IntRange(0, 5).Draw(t, "built") == 0 {
		c.Built = rapid.SampledFrom([]string{"cl0", "cl-1"}).Draw(t, "built_length")
	}
	if c.Logger == "marbl" && rapid.IntRange(0, 3).Draw(t, "sink_fails") == 0 {
		c.SinkFail = rapid.IntRange(1, 14).Draw(t, "sink_fail_at")
		c.SinkFailForever = rapid.Bool().Draw(t, "sink_fail_forever")
	}
	if c.Logger == "text" {
		c.DefaultSink = rapid.IntRange(0, 3).Draw(t, "default_sink") == 0
	}
	if c.Logger != "stack" && c.Msg.Response && (c.Msg.Body.Kind == "none" || c.Msg.ReqMethod == "HEAD") {
		c.NilBody = rapid.IntRange(0, 3).Draw(t, "nil_body") == 0
	}
	c.Post, c.Body = drawHarOpt(t, "post"), drawHarOpt(t, "body")
	c.HeadersOnly = rapid.IntRange(0, 3).Draw(t, "headers_only") == 0
	c.Decode = rapid.Bool().Draw(t, "decode")
	c.SnapSkip = rapid.SampledFrom([]string{"", "", "", "all", "unless"}).Draw(t, "snap_skip")
	if c.SnapSkip == "unless" {
		c.SnapTypes = []string{rapid.SampledFrom(ctPrefixes).Draw(t, "snap_type")}
	}
	if c.Logger != "snapshot" {
		c.Skip = rapid.IntRange(0, 3).Draw(t, "skip") == 0
		if !c.Skip && c.Msg.Response {
			c.SkipBetween = rapid.IntRange(0, 3).Draw(t, "skip_between") == 0
		}
		if (c.Skip || c.SkipBetween) && rapid.Bool().Draw(t, "other_marks") {
			// other context marks before and after the skip-logging mark
			pool := []string{rapid.SampledFrom([]string{"skip-logging", "api-forwarder"}).Draw(t, "skip_mark")}
			for _, o := range []string{"skip-round-trip", "api-request"} {
				if rapid.Bool().Draw(t, "mark_"+o) {
					pool = append(pool, o)
				}
			}
			c.Marks = rapid.Permutation(pool).Draw(t, "marks")
		}
	}
	if c.Logger == "stack" {
		c.Order = rapid.Permutation([]int{0, 1, 2}).Draw(t, "order")
	}
	return c
}

func bodySize(s msggen.Spec) int {
	size := s.Body.Size
	for _, p := range s.Body.Params {
		size += len(p.Value.Lit) + p.Value.N
	}
	return size
}

func nontrivial(c Case) bool {
	s := c.Msg
	size := bodySize(s)
	return size >= 4097 || s.Framing == "chunked" || s.Framing == "close" || c.Unknown || len(s.Trailers) > 0 || s.Encoding != ""
}

func classes(c Case) []string {
	s := c.Msg
	cl := []string{"logger-" + c.Logger, "framing-" + s.Framing}
	if s.Response {
		cl = append(cl, "response")
		if s.ReqMethod == "HEAD" || s.Status == 204 || s.Status == 304 {
			cl = append(cl, "response-without-body")
		}
	} else {
		cl = append(cl, "request")
		if s.Body.Kind == "none" && (s.Method == "POST" || s.Method == "PUT" || s.Method == "PATCH") {
			cl = append(cl, "bodyless-post")
		}
	}
	if len(s.Trailers) > 0 {
		cl = append(cl, "trailers")
	}
	if s.Encoding != "" {
		cl = append(cl, "encoded", "encoding-"+s.Encoding)
	}
	if c.Skip {
		cl = append(cl, "skip-logging")
	}
	if c.SkipBetween {
		cl = append(cl, "skip-logging-between-request-and-response")
	}
	if len(c.Marks) > 1 {
		cl = append(cl, "other-context-marks")
		if c.Marks[len(c.Marks)-1] != "skip-logging" && c.Marks[len(c.Marks)-1] != "api-forwarder" {
			cl = append(cl, "mark-after-skip-logging")
		}
	}
	if s.TrailersUnannounced {
		cl = append(cl, "unannounced-trailers")
	}
	if c.Built != "" {
		cl = append(cl, "built-"+c.Built)
	}
	if c.SinkFail > 0 {
		cl = append(cl, "marbl-sink-write-fails")
	}
	if c.DefaultSink {
		cl = append(cl, "text-default-sink")
	}
	if c.NilBody {
		cl = append(cl, "response-nil-body")
	}
	if s.Method == "CONNECT" {
		cl = append(cl, "connect-request")
	}
	if len(s.ConnOptions) > 0 {
		cl = append(cl, "connection-options")
	}
	if s.CustomReason {
		cl = append(cl, "custom-reason-phrase")
	}
	for _, q := range s.Query {
		if q.Bad {
			cl = append(cl, "query-rejected-by-net-url")
			break
		}
	}
	if s.Body.Kind == "badform" && (c.Logger == "har" || c.Logger == "stack") && c.Post.Mode == "all" {
		cl = append(cl, "unparseable-form-captured-by-har")
	}
	if c.Unknown {
		cl = append(cl, "unknown-length")
	}
	if bodySize(s) >= 4097 {
		cl = append(cl, "body>=4097")
	}
	if bodySize(s) >= 65537 {
		cl = append(cl, "body>=65537")
	}
	if bodySize(s) >= 1<<20 {
		cl = append(cl, "body>=1MiB")
	}
	if s.Body.Kind != "" {
		cl = append(cl, "body-"+s.Body.Kind)
	}
	if c.Logger == "har" || c.Logger == "stack" {
		cl = append(cl, "har-post-"+c.Post.Mode, "har-body-"+c.Body.Mode)
	}
	if c.Logger == "text" || c.Logger == "stack" {
		if c.HeadersOnly {
			cl = append(cl, "text-headers-only")
		}
		if c.Decode {
			cl = append(cl, "text-decode")
		}
	}
	if c.Logger == "snapshot" && c.SnapSkip != "" {
		cl = append(cl, "snapshot-skip-"+c.SnapSkip)
	}
	return cl
}

const rule = "a generated HTTP/1.x message (request or response; body 0..MiB of text/JSON/binary/urlencoded/multipart; Content-Length, chunked with drawn chunk sizes, close-delimited or made unknown-length; trailers; identity/gzip/deflate/br/mislabelled codings) is parsed twice, one copy passes a logger (HAR with drawn body options, marbl, text logger headersOnly x decode, bare snapshot, or all three stacked), both are serialised and compared byte for byte; the snapshot is re-parsed and compared with the generated description; skip-logging must leave every sink empty; non-trivial = body >= 4097 bytes, chunked/close/unknown-length framing, trailers, or a content coding"

var propForward = &kit.Prop[Case]{
	ID: "C15", Name: "forward", Rule: "rapid-drawn: " + rule,
	Gen: gen, Run: run, NonTrivial: nontrivial, Classes: classes,
	Gates: map[string]float64{
		"nontrivial": 0.5, "framing-chunked": 0.15, "trailers": 0.04, "encoded": 0.2, "skip-logging": 0.1,
		"logger-har": 0.1, "logger-marbl": 0.1, "logger-text": 0.1, "logger-snapshot": 0.1, "logger-stack": 0.1,
		"request": 0.3, "response": 0.3, "body>=4097": 0.15, "bodyless-post": 0.01, "skip-logging-between-request-and-response": 0.05, "mark-after-skip-logging": 0.03, "unannounced-trailers": 0.01, "built-cl0": 0.01, "marbl-sink-write-fails": 0.03, "text-default-sink": 0.02, "response-nil-body": 0.005, "connect-request": 0.005, "connection-options": 0.02, "custom-reason-phrase": 0.05, "query-rejected-by-net-url": 0.03, "built-cl-1": 0.01, "unparseable-form-captured-by-har": 0.003,
	},
}

var propMatrix = &kit.Prop[Case]{
	ID: "C15", Name: "matrix", Rule: "ALL combinations of logger x {request, response} x framing (none, Content-Length, chunked, chunked+trailers, close, answer to HEAD, 204) x body size {0, 1, 4097} x {identity, gzip} x skip-logging {off, before the exchange, between request and response phase (responses)} x method {GET, POST}; plus the skip-logging mark among other context marks (SkipRoundTrip, APIRequest, the real api.Forwarder) in 5 orders x 4 loggers x {request, response, response marked between the phases}, unannounced trailers x 5 loggers x {request, response}, messages built by a program with ContentLength 0 / -1 x 5 loggers x {request, response}, 5 kinds of unparseable form bodies x Content-Length/chunked x {har, stack}, and per logger: queries net/url rejects, 7 non-canonical reason phrases, x-gzip / zlib-deflate / mislabelled codings, CONNECT, a nil response body, a marbl sink failing at write 1/5/9/13 once or for good, the text logger's default sink: " + rule,
	Run: run, NonTrivial: nontrivial, Classes: classes,
}

func matrix(yield func(Case) bool) {
	type fr struct {
		framing  string
		trailers bool
		status   int
		reqm     string
	}
	for _, logger := range []string{"har", "marbl", "text", "snapshot", "stack"} {
		for _, skip := range []bool{false, true} {
			if skip && logger == "snapshot" {
				continue
			}
			for _, enc := range []string{"", "gzip"} {
				for _, size := range []int{0, 1, 4097} {
					base := Case{Logger: logger, Skip: skip, Post: HarOpt{Mode: "all"}, Body: HarOpt{Mode: "all"}, Decode: true, Order: []int{1, 0, 2}}
					body := msggen.Body{Kind: "text", Size: size, Seed: 7}
					tr := []msggen.HV{{Name: "X-Checksum", Value: "deadbeef"}}
					for _, method := range []string{"GET", "POST"} {
						for _, f := range []fr{{"none", false, 0, ""}, {"cl", false, 0, ""}, {"chunked", false, 0, ""}, {"chunked", true, 0, ""}} {
							c := base
							c.Msg = msggen.Spec{Method: method, Host: "example.com", Path: "/a", Framing: f.framing, Body: body, Encoding: enc, ContentType: "text/plain", Chunks: []int{3}}
							if f.trailers {
								c.Msg.Trailers = tr
							}
							if f.framing == "none" {
								if size != 0 {
									continue
								}
								c.Msg.Body = msggen.Body{Kind: "none"}
								c.Msg.Encoding, c.Msg.ContentType = "", ""
							}
							if !yield(c) {
								return
							}
						}
					}
					for _, f := range []fr{{"cl", false, 200, "GET"}, {"chunked", false, 200, "GET"}, {"chunked", true, 200, "GET"}, {"close", false, 200, "GET"}, {"cl", false, 200, "HEAD"}, {"none", false, 204, "GET"}} {
						c := base
						c.Msg = msggen.Spec{Response: true, Status: f.status, ReqMethod: f.reqm, Framing: f.framing, Body: body, Encoding: enc, ContentType: "text/plain", Chunks: []int{3}}
						if f.trailers {
							c.Msg.Trailers = tr
						}
						if f.status == 204 {
							if size != 0 {
								continue
							}
							c.Msg.Body = msggen.Body{Kind: "none"}
							c.Msg.Encoding, c.Msg.ContentType = "", ""
						}
						if !yield(c) {
							return
						}
						if !skip && logger != "snapshot" && size == 1 {
							// marked after the request phase, before the response phase
							c.SkipBetween = true
							if !yield(c) {
								return
							}
						}
					}
				}
			}
		}
	}
}

// matrixExtra: the skip-logging mark among other context marks, and trailers
// that no 'Trailer:' header announces.
func matrixExtra(yield func(Case) bool) {
	body := msggen.Body{Kind: "text", Size: 9, Seed: 7}
	reqSpec := msggen.Spec{Method: "POST", Host: "example.com", Path: "/a", Framing: "cl", Body: body, ContentType: "text/plain"}
	resSpec := msggen.Spec{Response: true, Status: 200, ReqMethod: "GET", Framing: "cl", Body: body, ContentType: "text/plain"}
	all := HarOpt{Mode: "all"}
	for _, logger := range []string{"har", "marbl", "text", "stack"} {
		for _, marks := range [][]string{{"skip-logging", "skip-round-trip"}, {"api-forwarder", "skip-round-trip"}, {"skip-round-trip", "skip-logging"},
			{"skip-logging", "api-request", "skip-round-trip"}, {"api-request", "skip-round-trip", "api-forwarder"}} {
			base := Case{Logger: logger, Post: all, Body: all, Decode: true, Order: []int{2, 0, 1}, Marks: marks}
			for k := 0; k < 3; k++ {
				c := base
				switch k {
				case 0:
					c.Msg, c.Skip = reqSpec, true
				case 1:
					c.Msg, c.Skip = resSpec, true
				case 2:
					c.Msg, c.SkipBetween = resSpec, true
				}
				if !yield(c) {
					return
				}
			}
		}
	}
	// messages built by a program (length field says nothing about the body)
	for _, logger := range []string{"har", "marbl", "text", "snapshot", "stack"} {
		for _, built := range []string{"cl0", "cl-1"} {
			for _, spec := range []msggen.Spec{reqSpec, resSpec} {
				if !yield(Case{Logger: logger, Post: all, Body: all, Order: []int{0, 1, 2}, Msg: spec, Built: built}) {
					return
				}
			}
		}
	}
	// request bodies labelled as forms that no form parser accepts, captured by HAR
	for _, logger := range []string{"har", "stack"} {
		for _, bad := range []string{"escape", "semicolon", "multipart-unclosed", "multipart-noboundary", "multipart-truncated"} {
			for _, framing := range []string{"cl", "chunked"} {
				ct := "application/x-www-form-urlencoded"
				if strings.HasPrefix(bad, "multipart") {
					ct = "multipart/form-data"
				}
				spec := msggen.Spec{Method: "POST", Host: "example.com", Path: "/a", Framing: framing, ContentType: ct,
					Body: msggen.Body{Kind: "badform", Bad: bad, Size: 20, Seed: 3, Boundary: "b0undary-0123456789-abcdefghij"}}
				if !yield(Case{Logger: logger, Post: all, Body: all, Order: []int{0, 1, 2}, Msg: spec}) {
					return
				}
			}
		}
	}
	// round 5: queries net/url rejects, reason phrases, a failing marbl sink, the
	// text logger's default sink, CONNECT, a nil response body, more codings
	for _, logger := range []string{"har", "marbl", "text", "snapshot", "stack"} {
		base := Case{Logger: logger, Post: all, Body: all, Order: []int{0, 1, 2}}
		var cs []Case
		for _, raw := range []msggen.NV{{Raw: "a=1;b=2", Bad: true}, {Raw: "discount=100%", Bad: true}, {Raw: "next=%zz", Bad: true}, {Name: "token", Value: msggen.Val{Lit: "YWJjZA=="}, Raw: "token=YWJjZA=="}} {
			c := base
			c.Msg = reqSpec
			c.Msg.Query = []msggen.NV{{Name: "x", Value: msggen.Val{Lit: "1"}}, raw}
			cs = append(cs, c)
		}
		for _, r := range []struct {
			code   int
			reason string
		}{{200, "Connection established"}, {404, "No Such Artifact"}, {200, "Ok"}, {302, "Moved Temporarily"}, {299, "Custom Status"}, {599, ""}, {200, ""}} {
			c := base
			c.Msg = resSpec
			c.Msg.Status, c.Msg.Reason, c.Msg.CustomReason = r.code, r.reason, true
			cs = append(cs, c)
		}
		for _, opts := range [][]string{{"TE, close"}, {"TE", "close"}, {"close, X-Hop"}, {"X-Hop", "TE"}} {
			c := base
			c.Msg = reqSpec
			c.Msg.ConnOptions = opts
			cs = append(cs, c)
		}
		for _, enc := range []string{"x-gzip", "deflate-zlib", "gzip-bad", "gzip-padded", "gzip-truncated", "deflate-bad", "gzip-multi"} {
			c := base
			c.Msg, c.Decode = resSpec, true
			c.Msg.Encoding = enc
			cs = append(cs, c)
		}
		c := base
		c.Msg = msggen.Spec{Method: "CONNECT", Host: "example.com:443", Framing: "none", Body: msggen.Body{Kind: "none"}}
		cs = append(cs, c)
		if logger != "stack" {
			c = base
			c.Msg, c.NilBody = msggen.Spec{Response: true, Status: 204, ReqMethod: "GET", Framing: "none", Body: msggen.Body{Kind: "none"}}, true
			cs = append(cs, c)
			// an answer to HEAD that announces chunked framing, Body nil
			c.Msg, c.Decode = resSpec, true
			c.Msg.ReqMethod, c.Msg.Framing = "HEAD", "chunked"
			cs = append(cs, c)
		}
		if logger == "text" || logger == "stack" {
			// headers only + decode on a chunked, coded message
			c = base
			c.Msg, c.HeadersOnly, c.Decode = resSpec, true, true
			c.Msg.Framing, c.Msg.Encoding = "chunked", "gzip"
			cs = append(cs, c)
		}
		if logger == "marbl" {
			for _, k := range []int{1, 5, 9, 13} {
				for _, forever := range []bool{false, true} {
					for _, spec := range []msggen.Spec{reqSpec, resSpec} {
						c := base
						c.Msg, c.SinkFail, c.SinkFailForever = spec, k, forever
						cs = append(cs, c)
					}
				}
			}
		}
		if logger == "text" {
			c := base
			c.Msg, c.DefaultSink = reqSpec, true
			c.Msg.Headers = []msggen.HV{{Name: "X-Discount", Value: "100%x off"}}
			cs = append(cs, c)
		}
		for _, c := range cs {
			if !yield(c) {
				return
			}
		}
	}
	tr := []msggen.HV{{Name: "X-Checksum", Value: "deadbeef"}, {Name: "Server-Timing", Value: "db;dur=53"}}
	for _, logger := range []string{"har", "marbl", "text", "snapshot", "stack"} {
		for _, spec := range []msggen.Spec{reqSpec, resSpec} {
			spec.Framing, spec.Chunks, spec.Trailers, spec.TrailersUnannounced = "chunked", []int{4}, tr, true
			if !yield(Case{Logger: logger, Post: all, Body: all, Decode: true, Order: []int{0, 1, 2}, Msg: spec}) {
				return
			}
		}
	}
}

func TestMatrix(t *testing.T) {
	if kit.Race() {
		t.Skip("sequential, single goroutine per case")
	}
	propMatrix.Enumerate(t, func(yield func(Case) bool) {
		stopped := false
		matrix(func(c Case) bool { stopped = !yield(c); return !stopped })
		if !stopped {
			matrixExtra(yield)
		}
	})
}

func TestForward(t *testing.T) {
	if kit.Race() {
		t.Skip("sequential, single goroutine per case")
	}
	propForward.Check(t, kit.N(5000, 30000))
}

func TestReplay(t *testing.T) { kit.Replay(t, propForward, propMatrix, propSequence) }
