package c19

import (
	"encoding/binary"
	"fmt"
	"runtime"
	"sync"
	"testing"

	"pgregory.net/rapid"

	"verifharness/internal/kit"
)

// ---------------------------------------------------------------- reader inputs

// RFrame is one frame of a hostile input. For T==1 (header) A/B are the
// declared name/value lengths; for T==2 (data) A is the index and B the
// declared data length; any other T is an unknown frame type. Have is the
// number of payload bytes really present after the length fields.
type RFrame struct {
	T    byte   `json:"t"`
	MT   byte   `json:"mt"`
	A    uint32 `json:"a"`
	B    uint32 `json:"b"`
	Term byte   `json:"term,omitempty"`
	Have int    `json:"have"`
	Seed uint64 `json:"seed,omitempty"`
}

// ReaderCase is a byte string for marbl.Reader: frames, then Tail random
// bytes, then Cut bytes removed from the end.
type ReaderCase struct {
	Frames []RFrame `json:"frames"`
	Tail   int      `json:"tail,omitempty"`
	Cut    int      `json:"cut,omitempty"`
	// Costly marks the explicit huge-length cases: they run even though a
	// reader that sizes its buffer from the declared length allocates
	// gigabytes for them (at most one per process, see TestReaderHuge).
	Costly bool `json:"costly,omitempty"`
}

func (c ReaderCase) bytes() []byte {
	var b []byte
	for _, f := range c.Frames {
		b = append(b, f.T, f.MT)
		b = append(b, kit.Text(f.Seed^0x1d, 8)...)
		switch f.T {
		case 1:
			b = binary.BigEndian.AppendUint32(b, f.A)
			b = binary.BigEndian.AppendUint32(b, f.B)
		case 2:
			b = binary.BigEndian.AppendUint32(b, f.A)
			b = append(b, f.Term)
			b = binary.BigEndian.AppendUint32(b, f.B)
		}
		// printable filler: a parse that resumes inside it sees an unknown type
		b = append(b, kit.Text(f.Seed, f.Have)...)
	}
	b = append(b, kit.Bytes(uint64(c.Tail)*31+7, c.Tail)...)
	if c.Cut > 0 {
		if c.Cut > len(b) {
			b = b[:0]
		} else {
			b = b[:len(b)-c.Cut]
		}
	}
	return b
}

const costlyBytes = 64 << 20

// wrapAllocates reports whether marbl.Reader, given a header frame whose
// lengths sum to 2^32+3 with 3 payload bytes present, allocates gigabytes
// (a reader that widened the sum but still sizes its buffer from it). The
// unchanged reader panics on it, a reader that grows its buffer with the
// bytes that arrive does neither. Decided once per process from the code
// under test (allocation counters, not time).
var wrapProbe struct {
	once      sync.Once
	allocates bool
}

func wrapAllocates() bool {
	wrapProbe.once.Do(func() {
		in := ReaderCase{Frames: []RFrame{{T: 1, MT: 1, A: 1 << 31, B: 1<<31 + 3, Have: 3}}}.bytes()
		var m0, m1 runtime.MemStats
		runtime.ReadMemStats(&m0)
		out := runReader(in)
		runtime.ReadMemStats(&m1)
		wrapProbe.allocates = !out.panicked && m1.TotalAlloc-m0.TotalAlloc >= 1<<30
		if wrapProbe.allocates {
			kit.Note("reader", "marbl.Reader allocates from 64-bit header length sums: wrap-around inputs cost >= 4 GiB each here, so the rapid generator's wrap-around class is skipped and only the explicit reader-huge cases cover it")
		}
	})
	return wrapProbe.allocates
}

// costly reports whether a reader that sizes a buffer from the declared
// lengths of the frame at which the walk stopped would allocate >= 64 MiB.
func costly(st stop) bool {
	switch st.Shape {
	case "header-truncated", "header-lengths-sum-wraps-32-bits":
		sum := st.NL + st.VL
		if sum >= 1<<32 {
			if uint64(uint32(sum)) >= costlyBytes {
				return true
			}
			return wrapAllocates()
		}
		return sum >= costlyBytes
	case "data-truncated":
		return st.DL >= costlyBytes
	}
	return false
}

func runReaderCase(c ReaderCase) kit.Verdict {
	in := c.bytes()
	if !c.Costly {
		if _, st, _ := parseAll(in); costly(st) {
			return nil // counted as class skipped-costly-length
		}
	}
	v, _ := checkReader("C19/reader", in)
	return v
}

func readerClasses(c ReaderCase) []string {
	in := c.bytes()
	frames, st, _ := parseAll(in)
	cl := []string{"stop:" + st.Shape}
	if !c.Costly && costly(st) {
		return append(cl, "skipped-costly-length")
	}
	if len(frames) >= 2 {
		cl = append(cl, "two-or-more-whole-frames")
	}
	if st.MaxField >= 1<<31 {
		cl = append(cl, "length-field-ge-2^31")
	}
	if st.Shape == "header-lengths-sum-wraps-32-bits" {
		cl = append(cl, "sum-wraps")
		if st.Have >= int(uint32(st.NL+st.VL)) {
			cl = append(cl, "sum-wraps-and-wrapped-length-present")
		}
	}
	for _, f := range frames {
		if (f.Kind == 1 && len(f.Name)+len(f.Value) == 0) || (f.Kind == 2 && len(f.Data) == 0) {
			cl = append(cl, "zero-length-frame")
			break
		}
	}
	return cl
}

func readerNonTrivial(c ReaderCase) bool {
	_, st, _ := parseAll(c.bytes())
	return st.MaxField >= 1<<31 && (c.Costly || !costly(st))
}

const readerRule = "byte strings from a frame grammar: 1..6 frames (honest header/data frames, declared lengths longer or shorter than the payload present, zero lengths, unknown frame and message types, header name/value lengths whose sum passes 2^32), optional random tail, optional truncation; marbl.Reader must return the frames the independent parser finds, then an error, and never panic; non-trivial = the walk meets a length field >= 2^31"

func genRFrame(t *rapid.T) RFrame {
	f := RFrame{Seed: rapid.Uint64Range(0, 1<<20).Draw(t, "seed"), MT: rapid.SampledFrom([]byte{1, 1, 2, 2, 0, 3, 255}).Draw(t, "mt")}
	small := []int{0, 0, 1, 2, 7, 20, 300, 5000}
	kind := rapid.SampledFrom([]string{"header", "header", "header", "header", "data", "data", "data", "data", "header-short", "header-long", "data-short", "data-long", "wrap", "wrap", "wrap", "unknown-type"}).Draw(t, "kind")
	switch kind {
	case "header", "header-short", "header-long":
		f.T = 1
		nl, vl := rapid.SampledFrom(small).Draw(t, "nl"), rapid.SampledFrom(small).Draw(t, "vl")
		f.A, f.B, f.Have = uint32(nl), uint32(vl), nl+vl
		d := rapid.IntRange(1, 40).Draw(t, "delta")
		if kind == "header-short" {
			f.Have -= d
			if f.Have < 0 {
				f.Have = 0
				f.B += uint32(d)
			}
		} else if kind == "header-long" {
			f.Have += d
		}
	case "data", "data-short", "data-long":
		f.T = 2
		dl := rapid.SampledFrom(small).Draw(t, "dl")
		f.A = rapid.SampledFrom([]uint32{0, 0, 1, 2, 1 << 31, 1<<32 - 1}).Draw(t, "index")
		f.Term = rapid.SampledFrom([]byte{0, 0, 1, 1, 2, 255}).Draw(t, "term")
		f.B, f.Have = uint32(dl), dl
		d := rapid.IntRange(1, 40).Draw(t, "delta")
		if kind == "data-short" {
			f.Have -= d
			if f.Have < 0 {
				f.Have = 0
				f.B += uint32(d)
			}
		} else if kind == "data-long" {
			f.Have += d
		}
	case "wrap":
		// name length + value length = 2^32 + s with a small s: in 32 bits the
		// sum is s, so s payload bytes satisfy a reader that wraps.
		f.T = 1
		s := rapid.SampledFrom([]uint64{0, 0, 1, 2, 7, 100, 4096}).Draw(t, "wrapped_sum")
		var nl uint64
		if rapid.Bool().Draw(t, "name_is_the_large_one") {
			nl = rapid.SampledFrom([]uint64{1<<32 - 1, 1<<32 - 2, 1 << 31, 1<<31 + 1, 3 << 30, 1<<32 - 100}).Draw(t, "nl")
			if nl <= s {
				nl = 1<<32 - 1
			}
		} else {
			nl = s + rapid.Uint64Range(1, 9).Draw(t, "nl_over_sum")
		}
		vl := 1<<32 + s - nl
		f.A, f.B = uint32(nl), uint32(vl)
		switch rapid.IntRange(0, 3).Draw(t, "have") {
		case 0:
			f.Have = int(s)
		case 1:
			f.Have = int(s) + rapid.IntRange(1, 30).Draw(t, "more")
		case 2:
			f.Have = int(s) / 2
		case 3:
			f.Have = 0
		}
	case "unknown-type":
		f.T = rapid.SampledFrom([]byte{0, 3, 4, 'a', 255}).Draw(t, "type")
		f.Have = rapid.IntRange(0, 30).Draw(t, "have")
	}
	return f
}

var propReader = &kit.Prop[ReaderCase]{
	ID: "C19", Name: "reader", Rule: readerRule,
	Run: runReaderCase, NonTrivial: readerNonTrivial, Classes: readerClasses,
	Gates: map[string]float64{"two-or-more-whole-frames": 0.15, "stop:clean-end": 0.03, "stop:unknown-frame-type": 0.05},
	Gen: func(t *rapid.T) ReaderCase {
		var c ReaderCase
		n := rapid.IntRange(1, 6).Draw(t, "frames")
		for i := 0; i < n; i++ {
			c.Frames = append(c.Frames, genRFrame(t))
		}
		if rapid.IntRange(0, 4).Draw(t, "tail?") == 0 {
			c.Tail = rapid.IntRange(1, 25).Draw(t, "tail")
		}
		if rapid.IntRange(0, 3).Draw(t, "cut?") == 0 {
			c.Cut = rapid.IntRange(1, 30).Draw(t, "cut")
		}
		return c
	},
}

func TestReader(t *testing.T) {
	if kit.Race() {
		t.Skip("single-goroutine decoding adds nothing under the race detector")
	}
	if !wrapAllocates() {
		// the wrap-around class runs in the rapid generator: demand it is there
		propReader.Gates["sum-wraps-and-wrapped-length-present"] = 0.10
		propReader.Gates["nontrivial"] = 0.15
	}
	propReader.Check(t, kit.N(3000, 4000))
}

// ---------------------------------------------------------------- explicit huge lengths

var propReaderHuge = &kit.Prop[ReaderCase]{
	ID: "C19", Name: "reader-huge",
	Rule: "explicit frames declaring 64 MiB..4 GiB (data lengths, header lengths with and without 32-bit wrap-around) with a few payload bytes present; a reader that sizes its buffer from the declaration allocates and zeroes that much, so the quick tier runs one 64..128 MiB declaration picked by the seed and the thorough tier one 2..4 GiB declaration in each of four shards, next to the cheap wrap-around shapes; same oracle as reader",
	Run:  runReaderCase, NonTrivial: readerNonTrivial, Classes: readerClasses,
}

// hugeMatrix: moderate (64..128 MiB) and large (2..4 GiB) declarations, and
// wrap-around shapes whose 32-bit sum is tiny.
func hugeMatrix() (moderate, large, wrapSmall []ReaderCase) {
	one := func(f RFrame) ReaderCase { f.MT = 1; return ReaderCase{Frames: []RFrame{f}, Costly: true} }
	moderate = []ReaderCase{
		one(RFrame{T: 2, Term: 1, B: 1 << 26, Have: 1}),
		one(RFrame{T: 1, A: 1 << 26, B: 0, Have: 4}),
		one(RFrame{T: 1, A: 0, B: 1 << 27, Have: 4}),
		one(RFrame{T: 1, A: 1 << 31, B: 1<<31 + 1<<26, Have: 4}), // wraps to 64 MiB
	}
	large = []ReaderCase{
		one(RFrame{T: 2, Term: 1, B: 1<<32 - 1, Have: 1}),
		one(RFrame{T: 1, A: 1 << 31, B: 0, Have: 4}),
		one(RFrame{T: 1, A: 0, B: 1<<32 - 1, Have: 4}),
		one(RFrame{T: 1, A: 1<<32 - 1, B: 1<<32 - 1, Have: 4}), // wraps to 2^32-2
	}
	honest := RFrame{T: 1, MT: 2, A: 4, B: 6, Have: 10, Seed: 3}
	wrapSmall = []ReaderCase{
		one(RFrame{T: 1, A: 1<<32 - 1, B: 1, Have: 0}),
		one(RFrame{T: 1, A: 1 << 31, B: 1<<31 + 3, Have: 3}),
		one(RFrame{T: 1, A: 5, B: 1<<32 - 3, Have: 2}),
		{Frames: []RFrame{honest, {T: 1, MT: 1, A: 1<<32 - 1, B: 2, Have: 1}, honest}, Costly: true},
	}
	return
}

func TestReaderHuge(t *testing.T) {
	if kit.Race() {
		t.Skip("multi-gigabyte buffers under the race detector's shadow memory")
	}
	moderate, large, wrap := hugeMatrix()
	propReaderHuge.Enumerate(t, func(yield func(ReaderCase) bool) {
		var cases []ReaderCase
		if kit.Thorough() && kit.Shards() >= 8 {
			// Enumerate deals the cases round-robin: shards 0..3 get one large
			// declaration each, shards 4..7 one wrap-around shape each
			cases = append(large, wrap...)
		} else {
			cases = []ReaderCase{moderate[int(uint64(kit.Seed())%uint64(len(moderate)))]}
			if !wrapAllocates() { // otherwise the probe was this process's wrap-around input
				cases = append(cases, wrap...)
			}
		}
		for _, c := range cases {
			if !yield(c) {
				return
			}
		}
	})
}

// ---------------------------------------------------------------- native fuzzing

const fuzzRule = "native fuzzing of marbl.Reader over raw bytes, seeded with well-formed streams and hostile constants; inputs whose walk meets a length field >= 64 MiB are skipped and counted (a length-trusting reader would zero gigabytes per exec and stall the fuzzer); same oracle as reader; non-trivial = at least one whole frame decoded"

func encHeader(mt byte, id, name, value string) []byte {
	b := append([]byte{1, mt}, id[:8]...)
	b = binary.BigEndian.AppendUint32(b, uint32(len(name)))
	b = binary.BigEndian.AppendUint32(b, uint32(len(value)))
	return append(append(b, name...), value...)
}

func encData(mt byte, id string, index uint32, terminal bool, data []byte) []byte {
	b := append([]byte{2, mt}, id[:8]...)
	b = binary.BigEndian.AppendUint32(b, index)
	if terminal {
		b = append(b, 1)
	} else {
		b = append(b, 0)
	}
	b = binary.BigEndian.AppendUint32(b, uint32(len(data)))
	return append(b, data...)
}

func fuzzSeeds() [][]byte {
	var valid []byte
	valid = append(valid, encHeader(1, "abcdefgh", ":method", "GET")...)
	valid = append(valid, encHeader(1, "abcdefgh", "Host", "example.com")...)
	valid = append(valid, encData(1, "abcdefgh", 0, false, []byte("hello "))...)
	valid = append(valid, encHeader(2, "abcdefgh", ":status", "200")...)
	valid = append(valid, encData(1, "abcdefgh", 1, true, []byte("world"))...)
	valid = append(valid, encData(2, "abcdefgh", 0, true, nil)...)
	seeds := [][]byte{
		valid,
		valid[:len(valid)-3],
		valid[:25],
		{},
		{1},
		append([]byte{9, 1}, "abcdefgh"...),
		encHeader(1, "abcdefgh", "", ""),
		append(encHeader(1, "abcdefgh", "k", "v")[:18], 'k'),
	}
	moderate, large, wrap := hugeMatrix()
	for _, c := range append(wrap, moderate[0], moderate[3], large[0], large[3]) {
		seeds = append(seeds, c.bytes()) // skipped by the guard, kept as mutation material
	}
	seeds = append(seeds, ReaderCase{Frames: []RFrame{{T: 1, MT: 1, A: 1 << 20, B: 0, Have: 9}}}.bytes())
	seeds = append(seeds, ReaderCase{Frames: []RFrame{{T: 2, MT: 2, A: 7, Term: 3, B: 1 << 16, Have: 2}}}.bytes())
	return seeds
}

func FuzzReader(f *testing.F) {
	for _, s := range fuzzSeeds() {
		f.Add(s)
	}
	f.Fuzz(func(t *testing.T, data []byte) {
		frames, st, _ := parseAll(data)
		if st.MaxField >= costlyBytes {
			kit.FuzzAccount("fuzz-reader", fuzzRule, data, false, "skipped-length-field-ge-64MiB")
			return
		}
		v, _ := checkReader("C19/reader", data)
		kit.FuzzAccount("fuzz-reader", fuzzRule, data, len(frames) > 0, "stop:"+st.Shape, fmt.Sprintf("frames:%d", min(len(frames), 3)))
		if len(v) > 0 {
			kit.FuzzFail(t, "C19", "fuzz-reader", "FuzzReader", v, data)
		}
	})
}
