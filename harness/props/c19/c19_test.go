package c19

import (
	"regexp"
	"testing"

	"verifharness/internal/kit"
)

func TestMain(m *testing.M) { kit.Main(m, "C19") }

var reMarbl = regexp.MustCompile(`martian/v3/marbl\.`)

func TestReplay(t *testing.T) {
	kit.Replay(t, propLogging, propHandler, propClosed, propReader, propReaderHuge)
}
