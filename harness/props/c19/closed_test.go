package c19

import (
	"bytes"
	"io"
	"regexp"
	"sort"
	"sync"
	"sync/atomic"
	"testing"

	"github.com/google/martian/v3/marbl"
	"pgregory.net/rapid"

	"verifharness/internal/kit"
)

// ---------------------------------------------------------------- stream closed while bodies are in flight
//
// "reading through the logging wrapper returns the same bytes and errors as
// the underlying body" has no exception for a stream that is closed (at
// shutdown, when a log file is rotated) while a logged body is still being
// read: the reader of the body did nothing wrong.

// ClosedCase: Msgs are logged to one stream and read concurrently; once all
// are logged and message CloseMsg has made CloseAfter reads, its consumer
// closes the stream and everybody reads on.
type ClosedCase struct {
	Msgs       []Msg `json:"msgs"`
	CloseMsg   int   `json:"close_msg"`
	CloseAfter int   `json:"close_after"`
}

var reBlockedSender = regexp.MustCompile(`(?s)\[chan send[^\]]*\]:.*marbl\.\(\*Stream\)\.send(Data|Header)`)

func runClosed(c ClosedCase) kit.Verdict {
	kit.Assume("logged messages carry a non-nil Body and have a martian context (true for every message the proxy hands to a modifier); IDs passed to Stream.LogRequest/LogResponse are at least 8 bytes long")
	rec := &recorder{}
	stream := marbl.NewStream(rec)
	bs, removes, _, bv := buildMsgs(c.Msgs, false)
	defer func() {
		for _, rm := range removes {
			rm()
		}
	}()
	var (
		once   sync.Once
		closed int32
		logged int32
	)
	closeStream := func() {
		once.Do(func() {
			stream.Close()
			atomic.StoreInt32(&closed, 1)
		})
	}
	if bv != nil {
		closeStream()
		return bv
	}
	baseline := kit.GoroutinesMatching(reBlockedSender)
	sink := &failSink{}
	sink.hook = func(i, reads int) {
		if reads == 0 {
			atomic.AddInt32(&logged, 1)
		}
		if i == c.CloseMsg && reads >= c.CloseAfter && int(atomic.LoadInt32(&logged)) == len(c.Msgs) {
			closeStream()
		}
	}
	doLog := func(i int) (io.ReadCloser, error) {
		m, b := c.Msgs[i], bs[i]
		if m.Resp {
			err := stream.LogResponse(m.id(), b.res)
			return b.res.Body, err
		}
		err := stream.LogRequest(m.id(), b.req)
		return b.req.Body, err
	}
	var idxs []int
	for i := range c.Msgs {
		idxs = append(idxs, i)
	}
	done := logGroup(idxs, c.Msgs, bs, doLog, sink)
	finished := func() bool {
		select {
		case <-done:
			return true
		default:
			return false
		}
	}
	// Close has returned => the stream's writer goroutine is gone; a sender
	// blocked on the stream's channel after that can never be released
	blocked := func() bool {
		return atomic.LoadInt32(&closed) == 1 && kit.GoroutinesMatching(reBlockedSender) > baseline
	}
	if !eventually("closed-stream", func() bool { return finished() || blocked() }) {
		return kit.Failf("C19/logging/stream-closed-mid-body/logging-did-not-finish", "reading %d logged bodies did not finish within %v\n%s", len(c.Msgs), 4*kit.T(), kit.GoroutineDump(reMarbl))
	}
	if !finished() {
		return kit.Failf("C19/wrapper/stream-closed-mid-body/read-blocks-forever", "Stream.Close has returned while %d logged bodies were being read; a Read through the logging wrapper is now blocked sending its data frame to the stream, whose writer goroutine is gone: it can never return, although the underlying body has bytes (or its EOF) ready", len(c.Msgs))
	}
	closeStream()
	fails := sink.verdict() // the wrapper clause: every Read equal to the twin's
	if len(fails) > 0 {
		return fails
	}
	// what was written before the stream closed is whole frames, and per
	// message a prefix of what its consumer read
	writes := rec.snapshot()
	for wi, w := range writes {
		fr, st, _ := parseAll(w)
		if len(fr) != 1 || st.Shape != "clean-end" {
			fails.Addf("C19/tearing/stream-closed-mid-body/write-is-not-one-whole-frame", "Write call %d of %d (%d bytes) is not exactly one frame: %d whole frames, then %s at offset %d", wi, len(writes), len(w), len(fr), st.Shape, st.Off)
			return fails
		}
	}
	frames, _, _ := parseAll(bytes.Join(writes, nil))
	for i, b := range bs {
		var cat, consumed []byte
		next := uint32(0)
		for _, f := range frames {
			if f.Kind == 2 && f.MT == b.exp.mt && f.ID == b.exp.id8 {
				if f.Index != next {
					fails.Addf("C19/data/stream-closed-mid-body/indices-not-contiguous-from-zero", "message %d: data frame index %d where %d was due", i, f.Index, next)
					break
				}
				next++
				cat = append(cat, f.Data...)
			}
		}
		for _, r := range b.exp.reads {
			consumed = append(consumed, r.data...)
		}
		if !bytes.HasPrefix(consumed, cat) {
			fails.Addf("C19/data/stream-closed-mid-body/logged-bytes-are-not-a-prefix-of-bytes-read", "message %d: %s", i, kit.Diff(consumed, cat))
		}
	}
	return fails
}

func closedClasses(c ClosedCase) []string {
	set := map[string]bool{}
	reads, _ := c.Msgs[c.CloseMsg].simulate()
	if reads > c.CloseAfter {
		set["closed-while-the-closing-consumer-still-reads"] = true
	}
	if c.CloseAfter == 0 {
		set["closed-before-the-first-read"] = true
	}
	if len(c.Msgs) >= 2 {
		set["other-bodies-in-flight"] = true
	}
	var out []string
	for k := range set {
		out = append(out, k)
	}
	sort.Strings(out)
	return out
}

var propClosed = &kit.Prop[ClosedCase]{
	ID: "C19", Name: "closed-stream",
	Rule: "1..3 messages (generator of logging) logged to one stream and read concurrently; when all are logged and one drawn consumer has made a drawn number of reads (0..5) it closes the stream and all consumers read on; every Read through the wrapper must still return what the twin script returns (a Read blocked on the closed stream's channel after Close returned is reported at once), and what reached the writer must be whole frames and per message a prefix of the bytes read; non-trivial = the stream is closed while the closing consumer still has reads to make",
	Run:  runClosed, Classes: closedClasses, Journal: true,
	NonTrivial: func(c ClosedCase) bool {
		reads, _ := c.Msgs[c.CloseMsg].simulate()
		return reads > c.CloseAfter
	},
	Gates: map[string]float64{"nontrivial": 0.4},
	Gen: func(t *rapid.T) ClosedCase {
		var c ClosedCase
		n := rapid.IntRange(1, 3).Draw(t, "messages")
		for i := 0; i < n; i++ {
			m := genMsg(t, i, nil)
			m.Of = -1
			c.Msgs = append(c.Msgs, m)
		}
		c.CloseMsg = rapid.IntRange(0, n-1).Draw(t, "close_msg")
		c.CloseAfter = rapid.IntRange(0, 5).Draw(t, "close_after")
		return c
	},
}

func TestClosedStream(t *testing.T) {
	propClosed.Check(t, kit.N(60, 200))
}
