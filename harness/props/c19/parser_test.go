// Package c19 decides property C19: marbl streams decode to the logged
// messages with intact, ordered bodies; the frame reader never panics.
package c19

import (
	"bytes"
	"encoding/binary"
	"errors"
	"fmt"
	"strings"

	"github.com/google/martian/v3/marbl"

	"verifharness/internal/kit"
)

// ---------------------------------------------------------------- independent parser
//
// Written from the package comment of marbl (and DESIGN Appendix A.5), not
// from reader.go: works on a byte slice, never allocates from a declared
// length, all length arithmetic in 64 bits.
//
//	frame  = type(1) msgtype(1) id(8) payload
//	header = nameLen(4,BE) valueLen(4,BE) name value          (type 1)
//	data   = index(4,BE) terminal(1) len(4,BE) bytes          (type 2)

type pframe struct {
	Kind    byte // 1 header, 2 data
	MT      byte
	ID      string
	Name    string
	Value   string
	Index   uint32
	TermRaw byte
	Data    []byte
}

// stop describes where and why the independent walk over an input ended.
type stop struct {
	Shape    string // clean-end | truncated-frame-header | unknown-frame-type | header-truncated | header-lengths-sum-wraps-32-bits | data-truncated
	Off      int    // offset of the frame at which the walk stopped
	NL, VL   uint64 // declared lengths of the stopping header frame
	DL       uint64 // declared length of the stopping data frame
	Have     int    // payload bytes present after the length fields of the stopping frame
	MaxField uint64 // largest length field seen on the walk (stopping frame included)
}

var (
	errTruncated   = errors.New("c19 parser: truncated frame")
	errUnknownType = errors.New("c19 parser: unknown frame type")
	errEnd         = errors.New("c19 parser: end of input")
)

func parseAll(b []byte) (frames []pframe, st stop, err error) {
	off := 0
	for {
		st.Off = off
		rest := b[off:]
		if len(rest) == 0 {
			st.Shape = "clean-end"
			return frames, st, errEnd
		}
		if len(rest) < 10 {
			st.Shape = "truncated-frame-header"
			return frames, st, errTruncated
		}
		f := pframe{Kind: rest[0], MT: rest[1], ID: string(rest[2:10])}
		p := rest[10:]
		switch f.Kind {
		case 1:
			if len(p) < 8 {
				st.Shape = "header-truncated"
				return frames, st, errTruncated
			}
			nl := uint64(binary.BigEndian.Uint32(p[0:4]))
			vl := uint64(binary.BigEndian.Uint32(p[4:8]))
			if nl > st.MaxField {
				st.MaxField = nl
			}
			if vl > st.MaxField {
				st.MaxField = vl
			}
			p = p[8:]
			if uint64(len(p)) < nl+vl {
				st.NL, st.VL, st.Have = nl, vl, len(p)
				st.Shape = "header-truncated"
				if nl+vl >= 1<<32 {
					st.Shape = "header-lengths-sum-wraps-32-bits"
				}
				return frames, st, errTruncated
			}
			f.Name = string(p[:nl])
			f.Value = string(p[nl : nl+vl])
			off += 10 + 8 + int(nl+vl)
		case 2:
			if len(p) < 9 {
				st.Shape = "data-truncated"
				return frames, st, errTruncated
			}
			f.Index = binary.BigEndian.Uint32(p[0:4])
			f.TermRaw = p[4]
			dl := uint64(binary.BigEndian.Uint32(p[5:9]))
			if dl > st.MaxField {
				st.MaxField = dl
			}
			p = p[9:]
			if uint64(len(p)) < dl {
				st.DL, st.Have = dl, len(p)
				st.Shape = "data-truncated"
				return frames, st, errTruncated
			}
			f.Data = p[:dl]
			off += 10 + 9 + int(dl)
		default:
			st.Shape = "unknown-frame-type"
			return frames, st, errUnknownType
		}
		frames = append(frames, f)
	}
}

// ---------------------------------------------------------------- marbl.Reader driver

type readerOutcome struct {
	frames   []marbl.Frame
	err      error
	panicked bool
	panicMsg string
	runaway  bool
}

// runReader reads frames until the first error. A panic is caught and
// reported as an outcome, so that the oracle can give it a signature.
func runReader(b []byte) (out readerOutcome) {
	defer func() {
		if r := recover(); r != nil {
			out.panicked = true
			out.panicMsg = fmt.Sprint(r)
		}
	}()
	r := marbl.NewReader(bytes.NewReader(b))
	limit := len(b)/10 + 2 // every frame consumes at least ten bytes
	for i := 0; i < limit; i++ {
		f, err := r.ReadFrame()
		if err != nil {
			out.err = err
			return out
		}
		out.frames = append(out.frames, f)
	}
	out.runaway = true
	return out
}

func describeP(f pframe) string {
	if f.Kind == 1 {
		return fmt.Sprintf("header{mt=%d id=%q name=%s value=%s}", f.MT, f.ID, short(f.Name), short(f.Value))
	}
	return fmt.Sprintf("data{mt=%d id=%q index=%d terminal-byte=%d len=%d hash=%s}", f.MT, f.ID, f.Index, f.TermRaw, len(f.Data), kit.Hash(f.Data))
}

func describeM(f marbl.Frame) string {
	switch x := f.(type) {
	case marbl.Header:
		return fmt.Sprintf("header{mt=%d id=%q name=%s value=%s}", x.MessageType, x.ID, short(x.Name), short(x.Value))
	case marbl.Data:
		return fmt.Sprintf("data{mt=%d id=%q index=%d terminal=%v len=%d hash=%s}", x.MessageType, x.ID, x.Index, x.Terminal, len(x.Data), kit.Hash(x.Data))
	}
	return fmt.Sprintf("%T", f)
}

func short(s string) string {
	if len(s) > 40 {
		return fmt.Sprintf("%q…(%d bytes, hash %s)", s[:40], len(s), kit.Hash([]byte(s)))
	}
	return fmt.Sprintf("%q", s)
}

// sameFrame compares a frame decoded by marbl.Reader with the independent
// parser's. The terminal flag is compared only for the byte values 0 and 1:
// the format says "Terminal uint8" and nothing about other values.
func sameFrame(w pframe, g marbl.Frame) bool {
	switch x := g.(type) {
	case marbl.Header:
		return w.Kind == 1 && byte(x.MessageType) == w.MT && x.ID == w.ID && x.Name == w.Name && x.Value == w.Value
	case marbl.Data:
		if !(w.Kind == 2 && byte(x.MessageType) == w.MT && x.ID == w.ID && x.Index == w.Index && bytes.Equal(x.Data, w.Data)) {
			return false
		}
		if w.TermRaw <= 1 && x.Terminal != (w.TermRaw == 1) {
			return false
		}
		return true
	}
	return false
}

// checkReader is the reader oracle: on any input marbl.Reader yields exactly
// the frames the independent parser finds, then a non-nil error, and never
// panics. prefix is the signature prefix ("C19/reader" or "C19/stream").
func checkReader(prefix string, b []byte) (kit.Verdict, stop) {
	want, st, _ := parseAll(b)
	out := runReader(b)
	var v kit.Verdict
	if out.panicked {
		class := "panic"
		if strings.Contains(out.panicMsg, "slice bounds out of range") {
			class = "panic-slice-out-of-range"
		} else if strings.Contains(out.panicMsg, "len out of range") {
			class = "panic-makeslice-len-out-of-range"
		}
		v.Addf(prefix+"/"+st.Shape+"/"+class,
			"marbl.Reader panicked (%s) after %d frames; the input (%d bytes) stops being well-formed at offset %d: %s (declared name/value lengths %d+%d, data length %d, %d payload bytes present)",
			out.panicMsg, len(out.frames), len(b), st.Off, st.Shape, st.NL, st.VL, st.DL, st.Have)
		return v, st
	}
	if out.runaway {
		v.Addf(prefix+"/"+st.Shape+"/no-error-at-end-of-input", "marbl.Reader returned %d frames from %d bytes without ever returning an error", len(out.frames), len(b))
		return v, st
	}
	n := len(want)
	if len(out.frames) < n {
		n = len(out.frames)
	}
	for i := 0; i < n; i++ {
		if !sameFrame(want[i], out.frames[i]) {
			v.Addf(prefix+"/"+st.Shape+"/frames-differ-from-independent-parser", "frame %d: marbl.Reader decoded %s, the independent parser %s", i, describeM(out.frames[i]), describeP(want[i]))
			return v, st
		}
	}
	if len(out.frames) != len(want) {
		v.Addf(prefix+"/"+st.Shape+"/frame-count-differs-from-independent-parser", "marbl.Reader decoded %d frames then %v; the independent parser finds %d frames, then %s at offset %d", len(out.frames), out.err, len(want), st.Shape, st.Off)
		return v, st
	}
	if out.err == nil {
		v.Addf(prefix+"/"+st.Shape+"/no-error-at-end-of-input", "marbl.Reader returned a nil frame and a nil error")
	}
	return v, st
}
