package c19

import (
	"bufio"
	"bytes"
	"encoding/hex"
	"errors"
	"fmt"
	"io"
	"net/http"
	"net/url"
	"runtime"
	"runtime/debug"
	"sort"
	"strconv"
	"strings"
	"sync"
	"sync/atomic"
	"testing"
	"time"

	"github.com/google/martian/v3"
	"github.com/google/martian/v3/marbl"
	"pgregory.net/rapid"

	"verifharness/internal/kit"
)

// ---------------------------------------------------------------- case

// Hdr is one header field with its values in order; Big > 0 appends one more
// value of Big printable bytes.
type Hdr struct {
	K   string   `json:"k"`
	V   []string `json:"v"`
	Big int      `json:"big,omitempty"`
}

// Msg is one logged message with its scripted body and its consumer.
type Msg struct {
	Resp bool `json:"resp,omitempty"`
	// Of >= 0: this response belongs to the request Msgs[Of] (same
	// *http.Request, same ID); -1: a message of its own.
	Of int    `json:"of"`
	ID string `json:"id"` // used on the direct Stream path; first 8 bytes distinct
	// IDHex, when set, is the ID as hex: arbitrary bytes that need not be UTF-8.
	IDHex string `json:"id_hex,omitempty"`
	// Parsed: the message is not assembled field by field but written as an
	// HTTP/1.1 head (request line or status line, Host, the header fields, the
	// stated Content-Length or Transfer-Encoding: chunked) and parsed with
	// http.ReadRequest / http.ReadResponse, as the proxy obtains its messages.
	// NoBody (responses only): the response's Body is http.NoBody itself, as in
	// responses built in Go (a modifier's 416, a CONNECT 2xx taken over from a
	// downstream proxy, net/http for bodiless answers) - for a response just an
	// empty body, which the consumer reads to EOF like any other.
	NoBody bool `json:"no_body,omitempty"`
	// NoCtx (direct Stream path only; never part of a pair): 1 = the request
	// (or the response's request) has no martian context, as for a message
	// that no proxy is handling; 2 = a response whose Request field is nil.
	NoCtx    int  `json:"no_ctx,omitempty"`
	Parsed   bool `json:"parsed,omitempty"`
	CLStated bool `json:"cl_stated,omitempty"` // Parsed: a Content-Length field (value CL, 0 included) is on the wire
	// Trailers (Parsed, chunked): a "Trailer: k1, k2" field announces these
	// trailer fields; net/http moves it from Header to the Trailer field.
	Trailers []string `json:"trailers,omitempty"`
	API      bool     `json:"api,omitempty"`

	Method string `json:"method,omitempty"`
	URL    string `json:"url,omitempty"`
	Proto  string `json:"proto,omitempty"`
	Remote string `json:"remote,omitempty"`
	Host   string `json:"host,omitempty"`
	Status int    `json:"status,omitempty"`
	Reason string `json:"reason,omitempty"`

	Hdrs []Hdr    `json:"hdrs,omitempty"`
	CL   int64    `json:"cl,omitempty"`
	TE   []string `json:"te,omitempty"`

	// scripted body: chunk sizes (0 = one Read that returns 0, nil), content
	// kit.Bytes(Seed, sum); EOFWithData: the final bytes come together with
	// the terminal error; Fail: the terminal error is not io.EOF.
	Chunks []int `json:"chunks,omitempty"`
	// ChunkErr[i] (missing = 0): 1 = the Read that delivers the last bytes of
	// chunk i also returns a transient, timeout-type error; 2 = after chunk i one
	// Read returns (0, that error). The body carries on afterwards and the
	// consumer retries.
	ChunkErr    []int `json:"chunk_err,omitempty"`
	EOFWithData bool  `json:"eof_with_data,omitempty"`
	Fail        bool  `json:"fail,omitempty"`
	// FailCut (with Fail): the final error is io.ErrUnexpectedEOF, what net/http
	// reports for a body cut short of its Content-Length - not an end of file.
	FailCut bool   `json:"fail_cut,omitempty"`
	Seed    uint64 `json:"seed"`

	// consumer: buffer sizes (cycled), Stop > 0: stop after that many reads,
	// Extra: reads issued after the first error, Yield: Gosched between reads.
	Bufs  []int `json:"bufs"`
	Stop  int   `json:"stop,omitempty"`
	Extra int   `json:"extra,omitempty"`
	Yield int   `json:"yield,omitempty"`
}

// LogCase is a set of messages logged concurrently to one stream.
type LogCase struct {
	Modifier bool `json:"modifier,omitempty"` // through marbl.Modifier (IDs from the martian context) instead of Stream.Log*
	// Second: every message is logged to two streams (two modifiers in one
	// modifier tree, e.g. a file and the websocket handler), first to one then
	// to the other, under the same ID; each stream has its own recording.
	Second     bool  `json:"second,omitempty"`
	Msgs       []Msg `json:"msgs"`
	SlowWriter int   `json:"slow_writer,omitempty"` // Gosched calls inside the recording writer
}

// id is the ID handed to Stream.LogRequest / LogResponse.
func (m Msg) id() string {
	if m.IDHex != "" {
		b, err := hex.DecodeString(m.IDHex)
		if err == nil {
			return string(b)
		}
	}
	return m.ID
}

// wireHead is the HTTP/1.1 head of a Parsed message.
func (m Msg) wireHead() string {
	var sb strings.Builder
	if m.Resp {
		fmt.Fprintf(&sb, "HTTP/1.1 %s\r\n", m.Reason)
	} else {
		fmt.Fprintf(&sb, "%s %s HTTP/1.1\r\n", m.Method, m.URL)
		if m.Host != "" {
			fmt.Fprintf(&sb, "Host: %s\r\n", m.Host)
		}
	}
	h := headerOf(m)
	for _, hd := range m.Hdrs {
		for _, v := range h[hd.K] {
			fmt.Fprintf(&sb, "%s: %s\r\n", hd.K, v)
		}
	}
	if m.CLStated {
		fmt.Fprintf(&sb, "Content-Length: %d\r\n", m.CL)
	}
	if len(m.TE) > 0 {
		fmt.Fprintf(&sb, "Transfer-Encoding: %s\r\n", strings.Join(m.TE, ", "))
	}
	if len(m.Trailers) > 0 {
		fmt.Fprintf(&sb, "Trailer: %s\r\n", strings.Join(m.Trailers, ", "))
	}
	sb.WriteString("\r\n")
	return sb.String()
}

func (m Msg) total() int {
	n := 0
	for _, c := range m.Chunks {
		n += c
	}
	return n
}

// ---------------------------------------------------------------- scripted body

var errScripted = errors.New("c19: scripted body failure")

// transientErr is a timeout-type error: the read may be retried.
type transientErr struct{}

func (transientErr) Error() string   { return "c19: scripted transient timeout" }
func (transientErr) Timeout() bool   { return true }
func (transientErr) Temporary() bool { return true }

var errTransient error = transientErr{}

type scripted struct {
	data    []byte
	chunks  []int
	cerr    []int
	ci      int // current chunk
	left    int // bytes left in the current chunk (valid when started)
	pos     int
	start   bool
	pending bool // a Read returning (0, errTransient) is due
	eofWD   bool
	term    error
	done    bool
	closed  int
}

func newScripted(m Msg) *scripted {
	s := &scripted{data: kit.Bytes(m.Seed, m.total()), chunks: m.Chunks, cerr: m.ChunkErr, eofWD: m.EOFWithData, term: io.EOF}
	if m.Fail {
		s.term = errScripted
		if m.FailCut {
			s.term = io.ErrUnexpectedEOF
		}
	}
	return s
}

// finish closes chunk ci after n bytes were delivered by the current Read.
func (s *scripted) finish(n int) (int, error) {
	ce := 0
	if s.ci < len(s.cerr) {
		ce = s.cerr[s.ci]
	}
	s.ci++
	s.start = false
	if s.ci >= len(s.chunks) && s.eofWD {
		s.done = true
		return n, s.term
	}
	switch ce {
	case 1:
		return n, errTransient
	case 2:
		s.pending = true
	}
	return n, nil
}

func (s *scripted) Read(b []byte) (int, error) {
	if s.pending {
		s.pending = false
		return 0, errTransient
	}
	if s.done || s.ci >= len(s.chunks) {
		s.done = true
		return 0, s.term
	}
	if !s.start {
		s.left, s.start = s.chunks[s.ci], true
	}
	if s.left == 0 { // a scripted empty read
		return s.finish(0)
	}
	n := len(b)
	if n > s.left {
		n = s.left
	}
	copy(b, s.data[s.pos:s.pos+n])
	s.pos += n
	s.left -= n
	if s.left == 0 {
		return s.finish(n)
	}
	return n, nil
}

func (s *scripted) Close() error { s.closed++; return nil }

// ---------------------------------------------------------------- recording writer

type recorder struct {
	mu      sync.Mutex
	writes  [][]byte
	yield   int
	inside  int32 // Write calls in progress
	overlap int32 // set when two Write calls were in progress at once
	fence   string
	fenced  int32 // set when a frame carrying the fence ID has been written
}

func (r *recorder) Write(b []byte) (int, error) {
	if atomic.AddInt32(&r.inside, 1) > 1 {
		atomic.StoreInt32(&r.overlap, 1)
	}
	defer atomic.AddInt32(&r.inside, -1)
	for i := 0; i < r.yield; i++ {
		runtime.Gosched()
	}
	r.mu.Lock()
	r.writes = append(r.writes, append([]byte(nil), b...))
	if r.fence != "" && len(b) >= 10 && b[1] == 1 && string(b[2:10]) == r.fence {
		atomic.StoreInt32(&r.fenced, 1)
	}
	r.mu.Unlock()
	return len(b), nil
}

func (r *recorder) snapshot() [][]byte {
	r.mu.Lock()
	defer r.mu.Unlock()
	return append([][]byte(nil), r.writes...)
}

// ---------------------------------------------------------------- expectations

type readObs struct {
	n    int
	eof  bool
	data []byte
}

type expectMsg struct {
	mt      byte
	id8     string
	shape   string
	headers map[string][]string // name -> values in order (":timestamp" compared for presence only)
	reads   []readObs
	sawEOF  bool
}

func (m Msg) bodyShape(reads int, stoppedEarly bool) string {
	switch {
	case stoppedEarly:
		return "early-stop"
	case m.hasTransient():
		return "transient-read-error"
	case m.Fail:
		return "read-error"
	case m.total() == 0:
		return "empty-body"
	case reads >= 3:
		return "multi-read"
	}
	return "short-body"
}

func (m Msg) hasTransient() bool {
	for _, e := range m.ChunkErr {
		if e != 0 {
			return true
		}
	}
	return false
}

func mtName(resp bool) string {
	if resp {
		return "response"
	}
	return "request"
}

func headerOf(m Msg) http.Header {
	h := http.Header{}
	for i, hd := range m.Hdrs {
		vs := append([]string(nil), hd.V...)
		if hd.Big > 0 {
			big := string(kit.Text(m.Seed+uint64(i)+1, hd.Big))
			if m.Parsed {
				big = "v" + big + "v" // net/http trims optional whitespace around a field value
			}
			vs = append(vs, big)
		}
		h[hd.K] = vs // keys as given: the map need not be canonical
	}
	return h
}

func buildRequest(m Msg) (*http.Request, error) {
	if m.Parsed {
		req, err := http.ReadRequest(bufio.NewReader(strings.NewReader(m.wireHead())))
		if err != nil {
			return nil, err
		}
		req.RemoteAddr = m.Remote
		return req, nil
	}
	u, err := url.Parse(m.URL)
	if err != nil {
		return nil, err
	}
	req := &http.Request{
		Method: m.Method, URL: u, Proto: m.Proto, ProtoMajor: 1, ProtoMinor: 1,
		Header: headerOf(m), Host: m.Host, RemoteAddr: m.Remote,
		ContentLength: m.CL, TransferEncoding: m.TE,
	}
	return req, nil
}

func expectedHeaders(m Msg, req *http.Request) map[string][]string {
	exp := map[string][]string{}
	if !m.Resp {
		exp[":method"] = []string{m.Method}
		exp[":scheme"] = []string{req.URL.Scheme}
		exp[":authority"] = []string{req.URL.Host}
		exp[":path"] = []string{req.URL.EscapedPath()}
		exp[":query"] = []string{req.URL.RawQuery}
		exp[":proto"] = []string{m.Proto}
		exp[":remote"] = []string{m.Remote}
		exp[":timestamp"] = []string{""}
		host := m.Host
		if m.Parsed {
			host = req.Host // net/http: the host of an absolute request target wins over the Host field
		}
		if host != "" {
			exp["Host"] = []string{host}
		}
	} else {
		exp[":proto"] = []string{m.Proto}
		exp[":status"] = []string{strconv.Itoa(m.Status)}
		exp[":reason"] = []string{m.Reason}
		exp[":timestamp"] = []string{""}
	}
	if m.API {
		exp[":api"] = []string{"true"}
	}
	for k, vs := range headerOf(m) {
		if len(vs) > 0 {
			exp[k] = vs
		}
	}
	if m.CL > 0 || (m.Parsed && m.CLStated) {
		// a parsed message keeps the Content-Length field it came with, "0" included
		exp["Content-Length"] = []string{strconv.FormatInt(m.CL, 10)}
	}
	if len(m.TE) > 0 {
		exp["Transfer-Encoding"] = m.TE
	}
	if m.Parsed && len(m.Trailers) > 0 {
		exp["Trailer"] = []string{trailerTokens(m.Trailers)}
	}
	return exp
}

// ---------------------------------------------------------------- run

func waitBounded(check string, done <-chan struct{}) bool {
	select {
	case <-done:
		return true
	case <-time.After(kit.T()):
	}
	select {
	case <-done:
		kit.Inconclusive(check)
		return true
	case <-time.After(3 * kit.T()):
		return false
	}
}

// built is one message made ready for logging, with what is expected of it.
type built struct {
	req  *http.Request
	res  *http.Response
	body *scripted
	twin *scripted
	exp  *expectMsg
}

// buildMsgs constructs every message and its martian context (before any
// goroutine starts). Through marbl.Modifier the wire ID is the first 8
// characters of the martian context ID: two different messages of the same
// type must not share it, or a reader cannot tell their frames apart. Context
// IDs are random, so a clash (2^-32 per pair) is re-validated once with fresh
// contexts before it is reported.
func buildMsgs(msgs []Msg, modifier bool) (bs []*built, removes []func(), drop bool, v kit.Verdict) {
	var clash string
	for attempt := 0; attempt < 2; attempt++ {
		bs, removes, clash, v = buildOnce(msgs, modifier)
		if clash == "" || v != nil {
			return bs, removes, false, v
		}
		if attempt == 0 {
			for _, rm := range removes {
				rm()
			}
			kit.Inconclusive("logging")
		}
	}
	return nil, removes, false, kit.Failf("C19/ids/through-modifier/distinct-messages-share-the-8-byte-wire-id", "%s (seen again with fresh contexts): every frame carries only ID[:8], so these messages cannot be told apart in the stream", clash)
}

func buildOnce(msgs []Msg, modifier bool) (bs []*built, removes []func(), clash string, v kit.Verdict) {
	bs = make([]*built, len(msgs))
	full := make([]string, len(msgs))
	for i, m := range msgs {
		b := &built{body: newScripted(m), twin: newScripted(m), exp: &expectMsg{mt: 1}}
		var ctx *martian.Context
		if m.Resp && m.Of >= 0 {
			b.req = bs[m.Of].req
			ctx = martian.NewContext(b.req)
		} else {
			var err error
			if m.Resp {
				b.req, err = http.NewRequest("GET", "http://origin.example/for-response", nil)
			} else {
				b.req, err = buildRequest(m)
			}
			if err != nil {
				return nil, removes, "", kit.Failf("C19/harness/bad-case", "message %d: %v", i, err)
			}
			if modifier || m.NoCtx == 0 {
				var rm func()
				ctx, rm, err = martian.TestContext(b.req, nil, nil)
				if err != nil {
					return nil, removes, "", kit.Failf("C19/harness/test-context", "martian.TestContext: %v", err)
				}
				removes = append(removes, rm)
			}
		}
		if ctx != nil {
			full[i] = ctx.ID()
			if m.API {
				ctx.APIRequest()
			}
		}
		if m.Resp {
			b.exp.mt = 2
			if m.Parsed {
				res, err := http.ReadResponse(bufio.NewReader(strings.NewReader(m.wireHead())), b.req)
				if err != nil {
					return nil, removes, "", kit.Failf("C19/harness/bad-case", "message %d: %v", i, err)
				}
				res.Body = b.body
				b.res = res
			} else {
				b.res = &http.Response{
					StatusCode: m.Status, Status: m.Reason, Proto: m.Proto, ProtoMajor: 1, ProtoMinor: 1,
					Header: headerOf(m), ContentLength: m.CL, TransferEncoding: m.TE,
					Body: b.body, Request: b.req,
				}
			}
			if m.NoBody {
				b.res.Body = http.NoBody // the twin is the empty script: (0, EOF) on every Read
			}
			if !modifier && m.NoCtx == 2 {
				b.res.Request = nil
			}
		} else {
			b.req.Body = b.body
		}
		b.exp.headers = expectedHeaders(m, b.req)
		if ctx == nil {
			delete(b.exp.headers, ":api")
		}
		if m.Resp && m.Of >= 0 && msgs[m.Of].API {
			b.exp.headers[":api"] = []string{"true"} // the flag lives on the shared context
		}
		if !m.Resp {
			for j := i + 1; j < len(msgs); j++ {
				if msgs[j].Resp && msgs[j].Of == i && msgs[j].API {
					b.exp.headers[":api"] = []string{"true"}
				}
			}
		}
		if modifier {
			b.exp.id8 = ctx.ID()[:8]
		} else {
			b.exp.id8 = m.id()[:8]
		}
		bs[i] = b
	}
	if modifier {
		seen := map[string]int{}
		for i, b := range bs {
			key := fmt.Sprintf("%d/%s", b.exp.mt, b.exp.id8)
			if j, dup := seen[key]; dup {
				return bs, removes, fmt.Sprintf("messages %d and %d (both %ss, martian context IDs %q and %q) reach the wire with the same ID %q", j, i, mtName(msgs[i].Resp), full[j], full[i], b.exp.id8), nil
			}
			seen[key] = i
		}
	}
	return bs, removes, "", nil
}

// failSink collects failures from several goroutines.
type failSink struct {
	mu sync.Mutex
	v  kit.Verdict
	// hook, when set, is called by the consumer of message i after it was
	// logged (reads == 0) and after each Read (reads = number made so far).
	hook func(i, reads int)
}

func (f *failSink) addf(sig, format string, args ...interface{}) {
	f.mu.Lock()
	f.v.Addf(sig, format, args...)
	f.mu.Unlock()
}

func (f *failSink) verdict() kit.Verdict {
	f.mu.Lock()
	defer f.mu.Unlock()
	return append(kit.Verdict(nil), f.v...)
}

// logGroup logs the messages idxs concurrently (one goroutine each, released
// together), reads their bodies in lockstep with the twins and fills in the
// expectations. The returned channel is closed when all are done.
func logGroup(idxs []int, msgs []Msg, bs []*built, doLog func(i int) (io.ReadCloser, error), sink *failSink) <-chan struct{} {
	var wg sync.WaitGroup
	addf := sink.addf
	start := make(chan struct{})
	for _, i := range idxs {
		wg.Add(1)
		go func(i int) {
			defer wg.Done()
			m, b := msgs[i], bs[i]
			defer func() {
				if r := recover(); r != nil {
					shape := mtName(m.Resp)
					if m.NoCtx != 0 {
						shape += "-without-martian-context"
					}
					addf("C19/logging/"+shape+"/panic", "message %d: logging or reading the body panicked: %v\n%s", i, r, debug.Stack())
				}
			}()
			<-start
			wrapped, err := doLog(i)
			if err != nil {
				addf("C19/logging/"+mtName(m.Resp)+"/log-call-returned-error", "message %d: logging returned %v", i, err)
				return
			}
			if sink.hook != nil {
				sink.hook(i, 0)
			}
			extra := m.Extra
			stoppedEarly := false
			maxBuf := 0
			for _, s := range m.Bufs {
				if s > maxBuf {
					maxBuf = s
				}
			}
			bufAll, tbufAll := make([]byte, maxBuf), make([]byte, maxBuf)
			for reads := 0; ; reads++ {
				if m.Stop > 0 && reads >= m.Stop {
					stoppedEarly = true
					break
				}
				if reads >= 5000 {
					stoppedEarly = true
					break
				}
				size := m.Bufs[reads%len(m.Bufs)]
				buf, tbuf := bufAll[:size], tbufAll[:size]
				n, err := wrapped.Read(buf)
				tn, terr := b.twin.Read(tbuf)
				if n != tn || err != terr {
					addf("C19/wrapper/"+mtName(m.Resp)+"/read-result-differs-from-underlying-body", "message %d read %d (buffer %d): wrapper returned (%d, %v), the same script read directly returns (%d, %v)", i, reads, size, n, err, tn, terr)
					return
				}
				if n < 0 || n > size {
					return
				}
				if !bytes.Equal(buf[:n], tbuf[:n]) {
					addf("C19/wrapper/"+mtName(m.Resp)+"/bytes-differ-from-underlying-body", "message %d read %d: %s", i, reads, kit.Diff(tbuf[:n], buf[:n]))
					return
				}
				b.exp.reads = append(b.exp.reads, readObs{n: n, eof: err == io.EOF, data: append([]byte(nil), buf[:n]...)})
				if err == io.EOF {
					b.exp.sawEOF = true
				}
				if sink.hook != nil {
					sink.hook(i, reads+1)
				}
				if err != nil && err != errTransient { // a timeout is retried
					if extra == 0 {
						break
					}
					extra--
				}
				for y := 0; y < m.Yield; y++ {
					runtime.Gosched()
				}
			}
			b.exp.shape = mtName(m.Resp) + "-" + m.bodyShape(len(b.exp.reads), stoppedEarly)
		}(i)
	}
	close(start)
	done := make(chan struct{})
	go func() { wg.Wait(); close(done) }()
	return done
}

// analyse compares decoded frames, per (type, ID), with the logged messages.
// root is the signature root ("C19/" for the stream's writer, "C19/subscriber-"
// for what a websocket subscriber of marbl.Handler received).
func analyse(root, conc string, frames []pframe, msgs []Msg, bs []*built, ignoreIDs []string) kit.Verdict {
	var fails kit.Verdict
	type key struct {
		mt byte
		id string
	}
	byMsg := map[key][]pframe{}
	for _, f := range frames {
		byMsg[key{f.MT, f.ID}] = append(byMsg[key{f.MT, f.ID}], f)
	}
	for i, b := range bs {
		e := b.exp
		fs := byMsg[key{e.mt, e.id8}]
		delete(byMsg, key{e.mt, e.id8})
		got := map[string][]string{}
		var data []pframe
		for _, f := range fs {
			if f.Kind == 1 {
				got[f.Name] = append(got[f.Name], f.Value)
			} else {
				data = append(data, f)
			}
		}
		if ts := got[":timestamp"]; len(ts) == 1 {
			got[":timestamp"] = []string{""}
		}
		wantH := e.headers
		if wt, ok := wantH["Trailer"]; ok {
			// the Trailer announcement has its own signature, so that this known
			// omission does not hide other header differences
			wantH = map[string][]string{}
			for k, v := range e.headers {
				if k != "Trailer" {
					wantH[k] = v
				}
			}
			gt := trailerTokens(got["Trailer"])
			delete(got, "Trailer")
			if gt != wt[0] {
				fails.Addf("C19/headers/"+mtName(msgs[i].Resp)+"-announcing-trailers/trailer-field-not-among-header-frames", "["+root+"] message %d (id %q): the message came with the header field Trailer: %s (net/http keeps it in the Trailer field of the message), the stream's header frames announce %q", i, e.id8, wt[0], gt)
			}
		}
		if d := diffHeaders(wantH, got); d != "" {
			fails.Addf(root+"headers/"+mtName(msgs[i].Resp)+"/header-frames-differ-from-message", "message %d (id %q): %s", i, e.id8, d)
		}
		// data frames
		var cat []byte
		contiguous := true
		for k, f := range data {
			if f.Index != uint32(k) {
				contiguous = false
			}
			cat = append(cat, f.Data...)
		}
		if !contiguous {
			var idx []string
			for _, f := range data {
				idx = append(idx, strconv.FormatUint(uint64(f.Index), 10))
				if len(idx) >= 12 {
					idx = append(idx, "…")
					break
				}
			}
			fails.Addf(root+"data/"+e.shape+"/indices-not-contiguous-from-zero", "message %d (id %q): data frame indices in stream order are %s", i, e.id8, strings.Join(idx, ","))
		}
		var consumed []byte
		for _, r := range e.reads {
			consumed = append(consumed, r.data...)
		}
		if !bytes.Equal(cat, consumed) {
			fails.Addf(root+"data/"+e.shape+"/concatenation-differs-from-bytes-read", "message %d (id %q): %d data frames, %s", i, e.id8, len(data), kit.Diff(consumed, cat))
		}
		if len(e.reads) > 0 && len(data) == 0 {
			fails.Addf(root+"data/"+e.shape+"/no-data-frames", "message %d (id %q): the consumer issued %d reads, the stream has no data frame", i, e.id8, len(e.reads))
		}
		if len(data) > 0 {
			last := data[len(data)-1]
			if (last.TermRaw == 1) != e.sawEOF || last.TermRaw > 1 {
				fails.Addf(root+"data/"+e.shape+"/terminal-flag-of-last-frame-wrong", "message %d (id %q): last data frame (index %d) has terminal byte %d, the consumer saw EOF: %v", i, e.id8, last.Index, last.TermRaw, e.sawEOF)
			}
			if len(data) == len(e.reads) {
				for k, f := range data {
					if (f.TermRaw != 0) != e.reads[k].eof {
						fails.Addf(root+"data/"+e.shape+"/terminal-flag-differs-from-read-eof", "message %d (id %q): frame %d has terminal byte %d but read %d returned EOF: %v", i, e.id8, k, f.TermRaw, k, e.reads[k].eof)
						break
					}
				}
			} else if !e.sawEOF {
				for _, f := range data {
					if f.TermRaw != 0 {
						fails.Addf(root+"data/"+e.shape+"/terminal-flag-before-eof", "message %d (id %q): frame %d is terminal, the body never reached EOF", i, e.id8, f.Index)
						break
					}
				}
			}
		}
	}
	for _, id := range ignoreIDs {
		delete(byMsg, key{1, id})
	}
	if len(byMsg) > 0 {
		var ks []string
		for k, fs := range byMsg {
			ks = append(ks, fmt.Sprintf("type %d id %q (%d frames)", k.mt, k.id, len(fs)))
		}
		sort.Strings(ks)
		fails.Addf(root+"stream/"+conc+"/frames-for-unknown-message", "the stream holds frames that belong to no logged message: %s", strings.Join(ks, "; "))
	}
	return fails
}

// logSink is one marbl stream with its recording.
type logSink struct {
	root   string // signature root
	rec    *recorder
	stream *marbl.Stream
	mod    *marbl.Modifier
}

func runLog(c LogCase) kit.Verdict {
	kit.Assume("logged messages carry a non-nil Body and have a martian context (true for every message the proxy hands to a modifier); IDs passed to Stream.LogRequest/LogResponse are at least 8 bytes long")
	sinks := []*logSink{{root: "C19/"}}
	if c.Second {
		sinks = append(sinks, &logSink{root: "C19/second-stream-"})
	}
	for _, k := range sinks {
		k.rec = &recorder{yield: c.SlowWriter}
		if c.Modifier {
			k.mod = marbl.NewModifier(k.rec)
		} else {
			k.stream = marbl.NewStream(k.rec)
		}
	}
	closeStreams := func() bool {
		ok := true
		for _, k := range sinks {
			if k.stream != nil {
				st := k.stream
				k.stream = nil
				cdone := make(chan struct{})
				go func() { st.Close(); close(cdone) }()
				ok = waitBounded("logging", cdone) && ok
			}
		}
		return ok
	}
	defer closeStreams()
	conc := "single-message"
	if len(c.Msgs) >= 2 {
		conc = "concurrent-messages"
	}
	bs, removes, _, bv := buildMsgs(c.Msgs, c.Modifier)
	defer func() {
		for _, rm := range removes {
			rm()
		}
	}()
	if bv != nil {
		return bv
	}
	sink := &failSink{}
	// like a modifier tree holding several marbl loggers: each logs the
	// message in turn, then the body is read once through all the wrappers
	doLog := func(i int) (io.ReadCloser, error) {
		m, b := c.Msgs[i], bs[i]
		for _, k := range sinks {
			var err error
			switch {
			case c.Modifier && m.Resp:
				err = k.mod.ModifyResponse(b.res)
			case c.Modifier:
				err = k.mod.ModifyRequest(b.req)
			case m.Resp:
				err = k.stream.LogResponse(m.id(), b.res)
			default:
				err = k.stream.LogRequest(m.id(), b.req)
			}
			if err != nil {
				return nil, err
			}
		}
		if m.Resp {
			return b.res.Body, nil
		}
		return b.req.Body, nil
	}
	var idxs []int
	for i := range c.Msgs {
		idxs = append(idxs, i)
	}
	if !waitBounded("logging", logGroup(idxs, c.Msgs, bs, doLog, sink)) {
		return kit.Failf("C19/logging/"+conc+"/logging-did-not-finish", "logging %d messages and reading their bodies did not finish within %v\n%s", len(c.Msgs), 4*kit.T(), kit.GoroutineDump(reMarbl))
	}
	fails := sink.verdict()

	// fence: a stream writes frames in the order it accepted them, so once a
	// frame of a message logged after all the others has reached the writer,
	// every frame of the others has.
	var fence *http.Request
	fenceID := "\x00fence\x00\x00"
	for attempt := 0; ; attempt++ {
		fence, _ = http.NewRequest("GET", "http://fence.invalid/", nil)
		fctx, frm, err := martian.TestContext(fence, nil, nil)
		if err != nil {
			return kit.Failf("C19/harness/test-context", "martian.TestContext: %v", err)
		}
		removes = append(removes, frm)
		if !c.Modifier {
			break
		}
		fenceID = fctx.ID()[:8]
		clash := -1
		for i, b := range bs {
			if b.exp.mt == 1 && b.exp.id8 == fenceID {
				clash = i
			}
		}
		if clash < 0 {
			break
		}
		// the fence is one more message logged through the real path
		if attempt >= 1 {
			return append(fails, kit.Failf("C19/ids/through-modifier/distinct-messages-share-the-8-byte-wire-id", "a request logged after message %d (martian context ID %q) reaches the wire with the same ID %q as that message (seen again with a fresh context)", clash, fctx.ID(), fenceID)...)
		}
		kit.Inconclusive("logging")
	}
	for _, k := range sinks {
		k.rec.mu.Lock()
		k.rec.fence = fenceID
		k.rec.mu.Unlock()
	}
	fdone := make(chan struct{})
	go func() {
		defer close(fdone)
		for _, k := range sinks {
			if c.Modifier {
				k.mod.ModifyRequest(fence)
			} else {
				k.stream.LogRequest(fenceID, fence)
			}
		}
	}()
	fenced := func() bool {
		for _, k := range sinks {
			if atomic.LoadInt32(&k.rec.fenced) == 0 {
				return false
			}
		}
		return true
	}
	if !waitBounded("logging", fdone) || !kit.Eventually(kit.T(), fenced) {
		if !kit.Eventually(3*kit.T(), fenced) {
			return kit.Failf("C19/logging/"+conc+"/logging-did-not-finish", "no frame of a further message logged after all others reached the writer within %v", 4*kit.T())
		}
		kit.Inconclusive("logging")
	}
	if !closeStreams() {
		return kit.Failf("C19/logging/"+conc+"/logging-did-not-finish", "Stream.Close did not return within %v", 4*kit.T())
	}
	if len(fails) > 0 {
		return fails
	}

	// ---- the recordings: every stream must hold all of every message
	for _, k := range sinks {
		writes := k.rec.snapshot()
		torn := false
		if atomic.LoadInt32(&k.rec.overlap) != 0 {
			// an io.Writer need not be safe for concurrent use: frames handed to it
			// from several goroutines at once can interleave inside the writer
			fails.Addf(k.root+"tearing/"+conc+"/overlapping-write-calls", "two Write calls on the stream's writer were in progress at the same time")
		}
		for wi, w := range writes {
			fr, st, _ := parseAll(w)
			if len(fr) != 1 || st.Shape != "clean-end" {
				fails.Addf(k.root+"tearing/"+conc+"/write-is-not-one-whole-frame", "Write call %d of %d (%d bytes) is not exactly one frame: %d whole frames, then %s at offset %d", wi, len(writes), len(w), len(fr), st.Shape, st.Off)
				torn = true
				break
			}
		}
		all := bytes.Join(writes, nil)
		frames, st, _ := parseAll(all)
		if st.Shape != "clean-end" && !torn {
			fails.Addf(k.root+"stream/"+conc+"/recording-is-not-a-frame-sequence", "the %d recorded bytes stop parsing at offset %d after %d frames: %s", len(all), st.Off, len(frames), st.Shape)
		}
		rv, _ := checkReader(k.root+"stream", all)
		fails = append(fails, rv...)
		fails = append(fails, analyse(k.root, conc, frames, c.Msgs, bs, []string{fenceID})...)
	}
	return fails
}

// trailerTokens normalises the value(s) of a Trailer field: the announced
// names, canonical, sorted, comma-joined - however they were spread over
// fields or spaced.
func trailerTokens(vs []string) string {
	var names []string
	for _, v := range vs {
		for _, t := range strings.Split(v, ",") {
			if t = strings.TrimSpace(t); t != "" {
				names = append(names, http.CanonicalHeaderKey(t))
			}
		}
	}
	sort.Strings(names)
	return strings.Join(names, ",")
}

func diffHeaders(want, got map[string][]string) string {
	var names []string
	for k := range want {
		names = append(names, k)
	}
	for k := range got {
		if _, ok := want[k]; !ok {
			names = append(names, k)
		}
	}
	sort.Strings(names)
	var out []string
	for _, k := range names {
		w, g := want[k], got[k]
		same := len(w) == len(g)
		for i := 0; same && i < len(w); i++ {
			same = w[i] == g[i]
		}
		if !same {
			out = append(out, fmt.Sprintf("%q: message has %s, stream has %s", k, shortList(w), shortList(g)))
			if len(out) >= 4 {
				out = append(out, "…")
				break
			}
		}
	}
	return strings.Join(out, "; ")
}

func shortList(vs []string) string {
	if vs == nil {
		return "nothing"
	}
	var s []string
	for _, v := range vs {
		s = append(s, short(v))
	}
	return "[" + strings.Join(s, ", ") + "]"
}

// ---------------------------------------------------------------- generator

var (
	alphaID  = []rune("abcdefghijklmnopqrstuvwxyzABCDEFGHIJKLMNOPQRSTUVWXYZ0123456789-_.~")
	urls     = []string{"http://example.com/", "https://example.com:8443/a/b%2Fc?x=1&y=%20z", "http://h/with space/é", "/origin-form/only?q", "http://[::1]:80/", "http://example.com", "http://example.com/?", "//no-scheme.example/p"}
	hdrNames = []string{"Accept", "X-Multi", "x-lower-case", "Cookie", "Via", "Content-Type", "X-Empty", "X-Ünïcode", "X-Forwarded-For"}
	hdrVals  = []string{"", "a", "text/html; charset=utf-8", "漢字 and é", "  padded  ", "a,b", "1.1 martian", "k=v; k2=v2", "x"}
)

func genMsg(t *rapid.T, i int, reqs []int) Msg {
	m := Msg{Of: -1, Seed: rapid.Uint64Range(1, 1<<30).Draw(t, "seed")}
	// IDs: the first byte numbers the message, so the 8 bytes that reach the
	// wire are distinct; the rest is ASCII, multi-byte UTF-8, or arbitrary bytes
	switch rapid.SampledFrom([]string{"ascii", "ascii", "utf8", "bytes"}).Draw(t, "id_kind") {
	case "ascii":
		m.ID = string(rune('A'+i)) + rapid.StringOfN(rapid.RuneFrom(alphaID), 7, 7, -1).Draw(t, "id")
		if rapid.Bool().Draw(t, "long_id") {
			m.ID += rapid.StringOfN(rapid.RuneFrom(alphaID), 1, 8, -1).Draw(t, "id_tail")
		}
	case "utf8":
		m.ID = string(rune('A' + i))
		for len(m.ID) < 8 {
			m.ID += string(rapid.SampledFrom([]rune{'é', 'ü', '\u0080', '漢', '😀', 'a', '0', '-'}).Draw(t, "id_rune"))
		}
	case "bytes":
		raw := append([]byte{byte('A' + i)}, rapid.SliceOfN(rapid.Byte(), 7, 12).Draw(t, "id_bytes")...)
		m.IDHex = hex.EncodeToString(raw)
		m.ID = ""
	}
	m.Resp = rapid.Bool().Draw(t, "resp")
	m.API = rapid.IntRange(0, 5).Draw(t, "api") == 0
	m.Proto = rapid.SampledFrom([]string{"HTTP/1.1", "HTTP/1.0", "HTTP/2.0", ""}).Draw(t, "proto")
	if m.Resp {
		if len(reqs) > 0 && rapid.Bool().Draw(t, "paired") {
			m.Of = rapid.SampledFrom(reqs).Draw(t, "of")
		}
		m.Status = rapid.SampledFrom([]int{200, 204, 301, 404, 500, 0, 999}).Draw(t, "status")
		m.Reason = rapid.SampledFrom([]string{"200 OK", "404 Not Found", "", "whatever é"}).Draw(t, "reason")
	} else {
		m.Method = rapid.SampledFrom([]string{"GET", "POST", "PUT", "CONNECT", "", "pAtCh"}).Draw(t, "method")
		m.URL = rapid.SampledFrom(urls).Draw(t, "url")
		m.Remote = rapid.SampledFrom([]string{"10.0.0.1:5555", "", "[::1]:1"}).Draw(t, "remote")
		m.Host = rapid.SampledFrom([]string{"example.com", "", "other.example:81"}).Draw(t, "host")
	}
	nh := rapid.IntRange(0, 5).Draw(t, "headers")
	used := map[string]bool{}
	for k := 0; k < nh; k++ {
		name := rapid.SampledFrom(hdrNames).Draw(t, "hname")
		if used[name] {
			continue
		}
		used[name] = true
		h := Hdr{K: name}
		nv := rapid.IntRange(0, 3).Draw(t, "hvalues")
		for j := 0; j < nv; j++ {
			h.V = append(h.V, rapid.SampledFrom(hdrVals).Draw(t, "hvalue"))
		}
		if rapid.IntRange(0, 9).Draw(t, "big") == 0 {
			h.Big = rapid.SampledFrom([]int{255, 256, 4096, 70000}).Draw(t, "big_len")
		}
		m.Hdrs = append(m.Hdrs, h)
	}
	m.CL = rapid.SampledFrom([]int64{-1, 0, 0, 5, 1 << 20}).Draw(t, "cl")
	m.TE = rapid.SampledFrom([][]string{nil, nil, {"chunked"}, {"gzip", "chunked"}}).Draw(t, "te")

	if rapid.IntRange(0, 2).Draw(t, "parsed") == 0 {
		// the message as net/http parses it off the wire
		m.Parsed, m.Proto = true, "HTTP/1.1"
		if m.Resp {
			st := rapid.SampledFrom([]string{"200 OK", "204 No Content", "304 Not Modified", "302 Found", "404 Not Found", "500 Internal Server Error"}).Draw(t, "status_line")
			m.Reason = st
			m.Status, _ = strconv.Atoi(st[:3])
		} else {
			m.Method = rapid.SampledFrom([]string{"GET", "POST", "PUT", "DELETE", "HEAD"}).Draw(t, "pmethod")
			m.URL = rapid.SampledFrom([]string{"/", "/origin-form/only?q=1", "http://example.com/", "http://example.com:8080/a/b%2Fc?x=1&y=%20z"}).Draw(t, "target")
			m.Host = "example.com"
			if strings.Contains(m.URL, ":8080") {
				m.Host = "example.com:8080"
			}
		}
		m.Hdrs = nil
		pn := rapid.IntRange(0, 4).Draw(t, "pheaders")
		pused := map[string]bool{}
		for k := 0; k < pn; k++ {
			name := rapid.SampledFrom([]string{"Accept", "X-Multi", "Cookie", "Via", "Content-Type", "X-Empty", "X-Forwarded-For", "Location"}).Draw(t, "pname")
			if pused[name] {
				continue
			}
			pused[name] = true
			h := Hdr{K: name}
			for j, nv := 0, rapid.IntRange(1, 3).Draw(t, "pvalues"); j < nv; j++ {
				h.V = append(h.V, rapid.SampledFrom([]string{"", "a", "text/html; charset=utf-8", "漢字 and é", "a,b", "1.1 martian", "k=v; k2=v2", "/elsewhere"}).Draw(t, "pvalue"))
			}
			if rapid.IntRange(0, 9).Draw(t, "pbig") == 0 {
				h.Big = rapid.SampledFrom([]int{255, 4096, 70000}).Draw(t, "pbig_len")
			}
			m.Hdrs = append(m.Hdrs, h)
		}
		m.TE, m.CL = nil, -1
		switch rapid.SampledFrom([]string{"cl0", "cl0", "cl", "chunked", "none"}).Draw(t, "framing") {
		case "cl0": // empty POST, empty 200, 204/304 saying so, redirect without body
			m.CLStated, m.CL = true, 0
		case "cl":
			m.CLStated, m.CL = true, rapid.SampledFrom([]int64{1, 5, 1 << 20}).Draw(t, "pcl")
		case "chunked":
			m.TE = []string{"chunked"}
			if rapid.Bool().Draw(t, "trailers") {
				m.Trailers = rapid.SampledFrom([][]string{{"X-Checksum"}, {"X-Checksum", "Grpc-Status"}, {"Expires"}}).Draw(t, "trailer_names")
			}
		}
	}

	// body
	total := 0
	switch rapid.IntRange(0, 5).Draw(t, "body_kind") {
	case 0:
	case 1, 2:
		total = rapid.IntRange(1, 300).Draw(t, "body_small")
	default:
		total = kit.Size(t, "body", 1<<20)
	}
	if total > 0 {
		cuts := rapid.IntRange(0, 5).Draw(t, "cuts")
		left := total
		for k := 0; k < cuts && left > 1; k++ {
			n := rapid.IntRange(1, left-1).Draw(t, "chunk")
			m.Chunks = append(m.Chunks, n)
			left -= n
			if rapid.IntRange(0, 7).Draw(t, "empty_read") == 0 {
				m.Chunks = append(m.Chunks, 0)
			}
		}
		m.Chunks = append(m.Chunks, left)
	} else if rapid.IntRange(0, 3).Draw(t, "empty_read_only") == 0 {
		m.Chunks = []int{0}
	}
	if len(m.Chunks) > 0 && rapid.IntRange(0, 3).Draw(t, "transient?") == 0 {
		m.ChunkErr = make([]int, len(m.Chunks))
		for k := 0; k < 2; k++ {
			at := rapid.IntRange(0, len(m.Chunks)-1).Draw(t, "transient_at")
			m.ChunkErr[at] = rapid.IntRange(1, 2).Draw(t, "transient_kind")
		}
	}
	m.EOFWithData = rapid.IntRange(0, 3).Draw(t, "eof_with_data") == 0
	m.Fail = rapid.IntRange(0, 7).Draw(t, "fail") == 0
	if m.Fail {
		m.FailCut = rapid.Bool().Draw(t, "fail_cut")
	}

	// consumer
	sizes := []int{1, 2, 7, 64, 512, 4096, 32 << 10, 64 << 10, 1 << 20}
	nb := rapid.IntRange(1, 4).Draw(t, "bufs")
	minBuf := 1 << 30
	for k := 0; k < nb; k++ {
		s := rapid.SampledFrom(sizes).Draw(t, "buf")
		if total/s > 300 { // keep one message below a few hundred frames
			s = total/300 + 1
		}
		if rapid.IntRange(0, 19).Draw(t, "zero_buf") == 0 && nb > 1 && k > 0 {
			s = 0
		}
		if s > 0 && s < minBuf {
			minBuf = s
		}
		m.Bufs = append(m.Bufs, s)
	}
	if rapid.IntRange(0, 4).Draw(t, "stop?") == 0 {
		m.Stop = rapid.IntRange(1, 6).Draw(t, "stop")
	}
	m.Extra = rapid.SampledFrom([]int{0, 0, 0, 1, 2}).Draw(t, "extra")
	m.Yield = rapid.IntRange(0, 2).Draw(t, "yield")
	if m.Resp && rapid.IntRange(0, 5).Draw(t, "no_body") == 0 {
		m.NoBody = true
		m.Chunks, m.ChunkErr, m.Fail, m.FailCut, m.EOFWithData = nil, nil, false, false, false
		if m.Parsed && m.CLStated {
			m.CL = 0
		}
	}
	if m.Of < 0 && rapid.IntRange(0, 7).Draw(t, "no_ctx") == 0 {
		m.NoCtx = 1
		if m.Resp {
			m.NoCtx = rapid.IntRange(1, 2).Draw(t, "no_ctx_kind")
		}
		m.API = false
	}
	return m
}

// simulate the consumer against the script (no martian involved) to classify
// a case without running it.
func (m Msg) simulate() (reads int, stoppedEarly bool) {
	s := newScripted(m)
	extra := m.Extra
	maxBuf := 0
	for _, b := range m.Bufs {
		if b > maxBuf {
			maxBuf = b
		}
	}
	buf := make([]byte, maxBuf)
	for ; ; reads++ {
		if (m.Stop > 0 && reads >= m.Stop) || reads >= 5000 {
			return reads, true
		}
		_, err := s.Read(buf[:m.Bufs[reads%len(m.Bufs)]])
		if err != nil && err != errTransient {
			if extra == 0 {
				return reads + 1, false
			}
			extra--
		}
	}
}

func logClasses(c LogCase) []string {
	set := map[string]bool{}
	if c.Modifier {
		set["through-modifier"] = true
	}
	if c.Second {
		set["two-streams"] = true
	}
	if len(c.Msgs) >= 2 {
		set["concurrent>=2"] = true
	}
	if len(c.Msgs) >= 5 {
		set["concurrent>=5"] = true
	}
	for _, m := range c.Msgs {
		reads, early := m.simulate()
		if reads >= 3 && !early {
			set["body-spans>=3-reads"] = true
		}
		if reads >= 100 {
			set["body-spans>=100-reads"] = true
		}
		if m.total() == 0 {
			set["empty-body"] = true
		}
		if m.total() >= 64<<10 {
			set["body>=64KiB"] = true
		}
		if early {
			set["early-stop"] = true
		}
		if m.Fail {
			set["read-error"] = true
			if m.FailCut && !early {
				set["body-cut-short-unexpected-eof"] = true
			}
		}
		if m.NoCtx != 0 && !c.Modifier {
			set["message-without-martian-context"] = true
		}
		if m.Resp && m.NoBody {
			set["response-with-http.NoBody"] = true
		}
		if m.Parsed {
			set["parsed-by-net/http"] = true
			if len(m.Trailers) > 0 {
				set["announces-trailers"] = true
			}
			if m.CLStated && m.CL == 0 {
				set["content-length-0-stated"] = true
			}
		}
		if !c.Modifier && (m.IDHex != "" || !isASCII(m.ID)) {
			set["non-ascii-id-on-stream-path"] = true
		}
		if m.hasTransient() && !early {
			set["transient-read-error-retried"] = true
		}
		if m.EOFWithData && m.total() > 0 && !m.Fail {
			set["eof-with-final-bytes"] = true
		}
		if m.Extra > 0 && !early {
			set["reads-after-the-end"] = true
		}
		if m.Resp && m.Of >= 0 {
			set["request-response-pair"] = true
		}
		if m.API {
			set["api-flag"] = true
		}
		if m.Resp {
			set["response"] = true
		} else {
			set["request"] = true
		}
	}
	var out []string
	for k := range set {
		out = append(out, k)
	}
	sort.Strings(out)
	return out
}

func isASCII(s string) bool {
	for i := 0; i < len(s); i++ {
		if s[i] >= 0x80 {
			return false
		}
	}
	return true
}

func logNonTrivial(c LogCase) bool {
	if len(c.Msgs) >= 2 {
		return true
	}
	for _, m := range c.Msgs {
		reads, early := m.simulate()
		if reads >= 3 || early || m.total() == 0 {
			return true
		}
	}
	return false
}

var propLogging = &kit.Prop[LogCase]{
	ID: "C19", Name: "logging",
	Rule: "1..8 requests/responses (URL parts, header multisets incl. large and non-canonical fields, Host/Content-Length/Transfer-Encoding fields, API flag, request/response pairs sharing an ID) logged concurrently to one marbl stream over a recording writer, directly or through marbl.Modifier, in a quarter of the cases to two streams in turn under the same IDs (each recording must hold everything); bodies are scripted readers (0..1 MiB in chunks, empty reads, transient timeout errors with or without bytes after which the consumer retries, EOF with or after the last bytes, or a final read error) consumed with generated buffer-size sequences, optional early stop and reads past the end; the recording is parsed with marbl.Reader and an independent parser and compared per (ID, type) with the message and with the reads the consumer made; a twin of the script gives the expected Read results; non-trivial = a body spanning >= 3 reads, an empty body, >= 2 concurrent messages or an early stop",
	Run:  runLog, NonTrivial: logNonTrivial, Classes: logClasses, Journal: true,
	Gates: map[string]float64{"nontrivial": 0.5, "concurrent>=2": 0.4, "body-spans>=3-reads": 0.4, "empty-body": 0.15, "early-stop": 0.1, "through-modifier": 0.15, "two-streams": 0.15, "response-with-http.NoBody": 0.1, "announces-trailers": 0.05, "message-without-martian-context": 0.1, "body-cut-short-unexpected-eof": 0.08, "parsed-by-net/http": 0.3, "content-length-0-stated": 0.15, "non-ascii-id-on-stream-path": 0.25, "transient-read-error-retried": 0.15, "eof-with-final-bytes": 0.1, "request-response-pair": 0.1},
	Gen: func(t *rapid.T) LogCase {
		c := LogCase{Modifier: rapid.IntRange(0, 3).Draw(t, "modifier") == 0}
		n := rapid.SampledFrom([]int{1, 1, 2, 3, 4, 6, 8}).Draw(t, "messages")
		var reqs []int
		paired := map[int]bool{}
		for i := 0; i < n; i++ {
			m := genMsg(t, i, reqs)
			if m.Of >= 0 {
				if paired[m.Of] {
					m.Of = -1 // one response per request
				} else {
					paired[m.Of] = true
					m.ID, m.IDHex = c.Msgs[m.Of].ID, c.Msgs[m.Of].IDHex
				}
			}
			if !m.Resp && m.NoCtx == 0 {
				reqs = append(reqs, i)
			}
			c.Msgs = append(c.Msgs, m)
		}
		c.SlowWriter = rapid.SampledFrom([]int{0, 0, 1, 3}).Draw(t, "slow_writer")
		c.Second = rapid.IntRange(0, 3).Draw(t, "second_stream") == 0
		return c
	},
}

func TestLogging(t *testing.T) {
	n := kit.N(600, 4000)
	if kit.Race() {
		n = kit.N(250, 1500)
	}
	propLogging.Check(t, n)
}
