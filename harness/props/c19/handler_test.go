package c19

import (
	"bytes"
	"fmt"
	"io"
	"net/http/httptest"
	"regexp"
	"sort"
	"strings"
	"sync"
	"sync/atomic"
	"testing"
	"time"

	"github.com/google/martian/v3/marbl"
	"golang.org/x/net/websocket"
	"pgregory.net/rapid"

	"verifharness/internal/kit"
)

// ---------------------------------------------------------------- marbl.Handler fan-out
//
// The production consumer of a marbl stream is marbl.Handler: the stream
// writes its frames to the handler, which queues every slice it is handed for
// each websocket subscriber and sends it later as one websocket message. The
// property speaks about the emitted frames; what a subscriber receives is
// where they are emitted to.

// HandlerCase: Msgs logged to marbl.NewStream(marbl.NewHandler()) while Subs
// websocket clients are attached. Phase[i] is 0 or 1: the messages of phase 0
// are logged concurrently, then those of phase 1.
type HandlerCase struct {
	Subs  int   `json:"subs"`
	Msgs  []Msg `json:"msgs"`
	Phase []int `json:"phase"`
}

// forwarder counts the stream's Write calls and passes the very same slice on.
type forwarder struct {
	w io.Writer
	n int64
}

func (f *forwarder) Write(b []byte) (int, error) {
	atomic.AddInt64(&f.n, 1)
	return f.w.Write(b)
}

type subscriber struct {
	ws     *websocket.Conn
	mu     sync.Mutex
	probes int
	marked bool     // the marker has arrived: everything after it comes from the stream
	msgs   [][]byte // websocket messages after the marker
	ended  error    // Receive failed (connection closed by either side)
}

func (s *subscriber) state() (probes int, marked bool, n int, ended bool) {
	s.mu.Lock()
	defer s.mu.Unlock()
	return s.probes, s.marked, len(s.msgs), s.ended != nil
}

var (
	probeFrame    = encHeader(1, "\x00probe\x00\x00", "probe", "")
	markerFrame   = encHeader(1, "\x00marker\x00", "marker", "")
	reStreamLogs  = regexp.MustCompile(`marbl\.\(\*Handler\)\.streamLogs`)
	handlerIgnore = []string{}
)

func (s *subscriber) receive() {
	for {
		var b []byte
		err := websocket.Message.Receive(s.ws, &b)
		s.mu.Lock()
		if err != nil {
			s.ended = err
			s.mu.Unlock()
			return
		}
		switch {
		case s.marked:
			s.msgs = append(s.msgs, b)
		case bytes.Equal(b, markerFrame):
			s.marked = true
		default:
			s.probes++
		}
		s.mu.Unlock()
	}
}

// eventually waits with the liveness bound, re-validated once at three times
// the bound.
func eventually(check string, cond func() bool) bool {
	if kit.Eventually(kit.T(), cond) {
		return true
	}
	if kit.Eventually(3*kit.T(), cond) {
		kit.Inconclusive(check)
		return true
	}
	return false
}

func runHandler(c HandlerCase) kit.Verdict {
	kit.Assume("logged messages carry a non-nil Body and have a martian context (true for every message the proxy hands to a modifier); IDs passed to Stream.LogRequest/LogResponse are at least 8 bytes long")
	h := marbl.NewHandler()
	srv := httptest.NewServer(h)
	defer srv.Close()
	addr := strings.TrimPrefix(srv.URL, "http://")

	subs := make([]*subscriber, 0, c.Subs)
	closeAll := func() {
		for _, s := range subs {
			s.ws.Close()
		}
		// let the handler notice: its per-subscriber goroutines leave when a send fails
		for i := 0; i < 200 && kit.GoroutinesMatching(reStreamLogs) > 0; i++ {
			h.Write(probeFrame)
			time.Sleep(time.Millisecond)
		}
	}
	defer closeAll()
	for i := 0; i < c.Subs; i++ {
		ws, err := websocket.Dial("ws://"+addr, "", "http://localhost/")
		if err != nil {
			kit.Note("handler", "a case was abandoned because a websocket client could not connect: "+err.Error())
			kit.Inconclusive("handler")
			return nil
		}
		s := &subscriber{ws: ws}
		subs = append(subs, s)
		go s.receive()
	}
	// a subscriber is attached some time after the handshake; find out when by
	// feeding the handler probe frames (our own slices, not the stream's)
	probesWritten, surplus := 0, -1
	attached := func() bool {
		all := true
		for si, s := range subs {
			p, _, _, _ := s.state()
			if p > probesWritten {
				surplus = si // more messages than Write calls: no need to wait any longer
				return true
			}
			if p == 0 {
				all = false
			}
		}
		if all {
			return true
		}
		h.Write(probeFrame)
		probesWritten++
		return false
	}
	ok := eventually("handler", attached)
	if surplus >= 0 {
		p, _, _, _ := subs[surplus].state()
		return kit.Failf("C19/subscriber-stream/subscribers-"+fmt.Sprint(min(c.Subs, 2))+"/more-messages-than-frames", "subscriber %d of %d received %d websocket messages while only %d frames had been written to the handler (frames meant for another subscriber?)", surplus, len(subs), p, probesWritten)
	}
	if !ok {
		kit.Note("handler", "a case was abandoned because a subscriber received nothing from the handler")
		kit.Inconclusive("handler")
		return nil
	}
	h.Write(markerFrame)
	marked := func() bool {
		for _, s := range subs {
			if _, m, _, _ := s.state(); !m {
				return false
			}
		}
		return true
	}
	if !eventually("handler", marked) {
		kit.Note("handler", "a case was abandoned because a subscriber did not receive the marker")
		kit.Inconclusive("handler")
		return nil
	}

	fw := &forwarder{w: h}
	stream := marbl.NewStream(fw)
	closed := false
	closeStream := func() bool {
		if closed {
			return true
		}
		closed = true
		cdone := make(chan struct{})
		go func() { stream.Close(); close(cdone) }()
		return waitBounded("handler", cdone)
	}
	defer closeStream()

	bs, removes, _, bv := buildMsgs(c.Msgs, false)
	defer func() {
		for _, rm := range removes {
			rm()
		}
	}()
	if bv != nil {
		return bv
	}
	conc := "concurrent-messages"
	sink := &failSink{}
	doLog := func(i int) (io.ReadCloser, error) {
		m, b := c.Msgs[i], bs[i]
		if m.Resp {
			err := stream.LogResponse(m.id(), b.res)
			return b.res.Body, err
		}
		err := stream.LogRequest(m.id(), b.req)
		return b.req.Body, err
	}
	for phase := 0; phase <= 1; phase++ {
		var idxs []int
		for i := range c.Msgs {
			if c.Phase[i] == phase {
				idxs = append(idxs, i)
			}
		}
		if len(idxs) == 0 {
			continue
		}
		if !waitBounded("handler", logGroup(idxs, c.Msgs, bs, doLog, sink)) {
			return kit.Failf("C19/logging/"+conc+"/logging-did-not-finish", "logging %d messages to a stream over marbl.Handler did not finish within %v\n%s", len(idxs), 4*kit.T(), kit.GoroutineDump(reMarbl))
		}
	}
	if !closeStream() {
		return kit.Failf("C19/logging/"+conc+"/logging-did-not-finish", "Stream.Close did not return within %v", 4*kit.T())
	}
	if v := sink.verdict(); len(v) > 0 {
		return v
	}
	// Close has returned: the stream's writer goroutine has made its last Write
	want := int(atomic.LoadInt64(&fw.n))
	arrived := func() bool {
		all := true
		for _, s := range subs {
			_, _, n, ended := s.state()
			if n > want {
				return true // a surplus settles it, see below
			}
			if n < want && !ended {
				all = false
			}
		}
		return all
	}
	complete := eventually("handler", arrived)

	var fails kit.Verdict
	for si, s := range subs {
		if _, _, n, _ := s.state(); n > want {
			return kit.Failf("C19/subscriber-stream/subscribers-"+fmt.Sprint(min(c.Subs, 2))+"/more-messages-than-frames", "subscriber %d of %d received %d websocket messages, the stream wrote only %d frames to the handler (frames meant for another subscriber?)", si, len(subs), n, want)
		}
	}
	for si, s := range subs {
		s.mu.Lock()
		msgs, ended := append([][]byte(nil), s.msgs...), s.ended
		s.mu.Unlock()
		if len(msgs) < want {
			if ended != nil {
				// the handler may drop a subscriber (full queue) or lose it (failed
				// send); nothing is asserted about what such a subscriber got
				kit.Note("handler", "a subscriber's connection ended before it had received every frame; it was not assessed")
				continue
			}
			if !complete {
				fails.Addf("C19/subscriber-stream/"+conc+"/frames-missing", "subscriber %d of %d received %d of the %d frames the stream wrote to the handler within %v, and is still connected", si, len(subs), len(msgs), want, 4*kit.T())
				continue
			}
		}
		if len(msgs) > want {
			fails.Addf("C19/subscriber-stream/"+conc+"/more-messages-than-frames", "subscriber %d received %d websocket messages, the stream wrote %d frames to the handler", si, len(msgs), want)
		}
		torn := false
		for mi, m := range msgs {
			fr, st, _ := parseAll(m)
			if len(fr) != 1 || st.Shape != "clean-end" {
				fails.Addf("C19/subscriber-tearing/"+conc+"/message-is-not-one-whole-frame", "subscriber %d of %d: websocket message %d of %d (%d bytes) is not exactly one frame: %d whole frames, then %s at offset %d", si, len(subs), mi, len(msgs), len(m), len(fr), st.Shape, st.Off)
				torn = true
				break
			}
		}
		all := bytes.Join(msgs, nil)
		frames, st, _ := parseAll(all)
		if st.Shape != "clean-end" && !torn {
			fails.Addf("C19/subscriber-stream/"+conc+"/received-bytes-are-not-a-frame-sequence", "subscriber %d: the %d received bytes stop parsing at offset %d after %d frames: %s", si, len(all), st.Off, len(frames), st.Shape)
		}
		rv, _ := checkReader("C19/subscriber-stream", all)
		fails = append(fails, rv...)
		for _, f := range analyse("C19/subscriber-", conc, frames, c.Msgs, bs, handlerIgnore) {
			f.Msg = fmt.Sprintf("subscriber %d of %d: %s", si, len(subs), f.Msg)
			fails = append(fails, f)
		}
		if len(fails) > 0 {
			break // the other subscribers were handed the same slices
		}
	}
	return fails
}

func handlerClasses(c HandlerCase) []string {
	set := map[string]bool{fmt.Sprintf("subscribers:%d", c.Subs): true}
	p0, p1 := 0, 0
	for i, m := range c.Msgs {
		if c.Phase[i] == 0 {
			p0++
		} else {
			p1++
		}
		reads, early := m.simulate()
		if reads >= 3 && !early {
			set["body-spans>=3-reads"] = true
		}
		if m.total() == 0 {
			set["empty-body"] = true
		}
		if m.total() >= 64<<10 {
			set["body>=64KiB"] = true
		}
		if m.Resp && m.Of >= 0 {
			set["request-response-pair"] = true
		}
	}
	if p0 >= 2 || p1 >= 2 {
		set["concurrent>=2"] = true
	}
	if p0 > 0 && p1 > 0 {
		set["two-phases"] = true
	}
	var out []string
	for k := range set {
		out = append(out, k)
	}
	sort.Strings(out)
	return out
}

var propHandler = &kit.Prop[HandlerCase]{
	ID: "C19", Name: "handler",
	Rule: "2..8 requests/responses (same message and body generator as logging) logged in one or two concurrent groups to marbl.NewStream(marbl.NewHandler()) served over httptest while 1..3 websocket clients are attached (attachment established with probe frames and a marker fed to the handler directly); after Stream.Close every subscriber must have received exactly one websocket message per frame the stream wrote, each message one whole frame, the sequence decoding identically with marbl.Reader and the independent parser and matching, per (ID, type), the logged messages and the reads their consumers made; a subscriber whose connection ended early is not assessed; non-trivial = always (at least two messages and one subscriber)",
	Run:  runHandler, Classes: handlerClasses, Journal: true,
	Gates: map[string]float64{"concurrent>=2": 0.6, "subscribers:3": 0.15, "subscribers:1": 0.15, "body-spans>=3-reads": 0.4},
	Gen: func(t *rapid.T) HandlerCase {
		c := HandlerCase{Subs: rapid.IntRange(1, 3).Draw(t, "subscribers")}
		n := rapid.IntRange(2, 8).Draw(t, "messages")
		twoPhases := rapid.Bool().Draw(t, "two_phases")
		var reqs []int
		paired := map[int]bool{}
		for i := 0; i < n; i++ {
			m := genMsg(t, i, reqs)
			if m.Of >= 0 {
				if paired[m.Of] {
					m.Of = -1
				} else {
					paired[m.Of] = true
					m.ID, m.IDHex = c.Msgs[m.Of].ID, c.Msgs[m.Of].IDHex
				}
			}
			if !m.Resp && m.NoCtx == 0 {
				reqs = append(reqs, i)
			}
			c.Msgs = append(c.Msgs, m)
			ph := 0
			if twoPhases {
				ph = rapid.IntRange(0, 1).Draw(t, "phase")
			}
			c.Phase = append(c.Phase, ph)
		}
		return c
	},
}

func TestHandler(t *testing.T) {
	n := kit.N(80, 250)
	if kit.Race() {
		n = kit.N(40, 150)
	}
	propHandler.Check(t, n)
}
