package c09

import (
	"testing"
	"time"

	"verifharness/internal/kit"
	"verifharness/props/h2kit"
)

// FitCase: a DATA frame the relay has accepted is larger than what the receiver can take
// in one piece.
//
// Kind "window": the receiver announces a stream window of Window octets (the sender has
// not processed that yet and sends one frame of Size octets), and from then on returns
// exactly the credit it has consumed, as receivers do. A sender in the relay's place
// splits the data to fit the window; the whole frame must arrive in the end.
//
// Kind "max-frame": the receiver allows frames of 65 536 octets, the sender sends one of
// Size octets which the relay holds (zero stream window, not yet processed by the sender),
// the receiver then lowers SETTINGS_MAX_FRAME_SIZE to 16 384 and, once that has been
// acknowledged, opens the window: no frame above 16 384 octets may arrive any more.
type FitCase struct {
	Kind    string `json:"kind"`
	Reverse bool   `json:"reverse,omitempty"`
	Window  int    `json:"window,omitempty"`
	Size    int    `json:"size"`
}

func runFitOnce(c FitCase, bound time.Duration) (v kit.Verdict, slow bool) {
	s, err := h2kit.Open(h2kit.Options{Bound: bound})
	if err != nil {
		return kit.Failf("C09/session/setup/relay-did-not-connect", "%v", err), true
	}
	defer s.Teardown(bound)
	S, R := s.Client, s.Server
	if c.Reverse {
		S, R = s.Server, s.Client
	}
	s.Client.WritePreface()
	if c.Kind == "max-frame" {
		R.WriteSettings(h2kit.Setting{ID: 5, Val: 65536})
	} else {
		R.WriteSettings()
	}
	S.WriteSettings()
	if !S.Wait(bound, func(r *h2kit.Rec) bool { return (len(r.Settings) >= 1 && r.Acks >= 1) || r.Done }) ||
		!R.Wait(bound, func(r *h2kit.Rec) bool { return (len(r.Settings) >= 1 && r.Acks >= 1) || r.Done }) {
		return kit.Failf("C09/session/setup/settings-exchange-incomplete", "SETTINGS exchange did not complete within %v", bound), true
	}
	// (the sender has processed the first SETTINGS frame: it may use frames of up to 65 536 octets)
	S.SetAutoAck(false)
	req := []h2kit.Field{{N: ":method", V: "POST"}, {N: ":scheme", V: "https"}, {N: ":path", V: "/"}, {N: ":authority", V: "example.com"}}
	s.Client.WriteHeaders(h2kit.HeadersSpec{Stream: 1, Pad: -1, Fields: req})
	if !s.Server.Wait(bound, func(r *h2kit.Rec) bool { return len(r.Streams[1]) > 0 || r.Done }) {
		return kit.Failf("C09/session/setup/streams-not-opened", "request HEADERS did not reach the server within %v", bound), true
	}
	if c.Reverse {
		S.WriteHeaders(h2kit.HeadersSpec{Stream: 1, Pad: -1, Fields: []h2kit.Field{{N: ":status", V: "200"}}})
	}
	window := c.Window
	if c.Kind == "max-frame" {
		window = 0
	}
	// the receiver's new window; the sender has it on its way but has not processed it
	R.WriteSettings(h2kit.Setting{ID: 4, Val: uint32(window)})
	if !S.Wait(bound, func(r *h2kit.Rec) bool { return len(r.Settings) >= 2 || r.Done }) {
		return kit.Failf("C09/session/receiver-to-sender/barrier-not-forwarded", "the receiver's SETTINGS frame did not reach the sender within %v", bound), true
	}
	S.WriteData(1, kit.Bytes(9, c.Size), -1, true)
	S.WritePing(false, h2kit.MarkerPing(1))
	if !R.Wait(bound, func(r *h2kit.Rec) bool { return r.HasMarker(1) || r.Done }) {
		return kit.Failf("C09/session/sender-to-receiver/barrier-not-forwarded", "the sender's barrier PING did not reach the receiver within %v", bound), true
	}
	report := func() {
		R.With(func(r *h2kit.Rec) {
			for _, vi := range r.Violations {
				shape := "frame-larger-than-the-stream-window"
				if c.Kind == "max-frame" {
					shape = "max-frame-size-lowered-while-data-is-held"
				}
				v.Addf("C09/overrun/"+shape+"/"+vi.Kind, "%s", vi.Detail)
			}
			r.Violations = nil
		})
	}

	switch c.Kind {
	case "window":
		// consume and re-grant until everything is there or nothing moves any more
		got := 0
		patience := bound
		if kit.Known("C09/stranding/frame-larger-than-the-stream-window/data-not-split-to-fit") {
			patience = bound / 6 // already an open finding: not waited for at length
		}
		for got < c.Size {
			want := got + 1
			if !R.Wait(patience, func(r *h2kit.Rec) bool { return r.DataBytes[1] >= want || r.Done }) {
				conn, str := R.Credit(1)
				v.Addf("C09/stranding/frame-larger-than-the-stream-window/data-not-split-to-fit", "the relay holds a DATA frame of %d octets for a receiver whose stream window is %d octets (it returns the credit it consumes); %d octets arrived, then nothing for %v with stream credit %d and connection credit %d", c.Size, c.Window, got, bound, str, conn)
				slow = true
				break
			}
			var now int
			R.With(func(r *h2kit.Rec) { now = r.DataBytes[1] })
			R.WriteWindowUpdate(1, uint32(now-got))
			R.WriteWindowUpdate(0, uint32(now-got))
			got = now
		}
		report()
	case "max-frame":
		R.WriteSettings(h2kit.Setting{ID: 5, Val: 16384})
		if !S.Wait(bound, func(r *h2kit.Rec) bool { return len(r.Settings) >= 3 || r.Done }) {
			return kit.Failf("C09/session/receiver-to-sender/barrier-not-forwarded", "the receiver's SETTINGS frame did not reach the sender within %v", bound), true
		}
		acks := 0
		R.With(func(r *h2kit.Rec) { acks = r.Acks })
		S.AckSettings() // the sender has now processed everything, including the smaller frame size
		if !R.Wait(bound, func(r *h2kit.Rec) bool { return r.Acks >= acks+2 || r.Done }) {
			return kit.Failf("C09/session/sender-to-receiver/barrier-not-forwarded", "the sender's SETTINGS acknowledgements did not reach the receiver within %v", bound), true
		}
		R.SetAdvertisedMaxFrame(16384) // acknowledged: from here on the receiver enforces it
		R.WriteWindowUpdate(1, 1<<20)
		if !R.Wait(bound, func(r *h2kit.Rec) bool { return r.DataBytes[1] >= c.Size || r.Done }) {
			v.Addf("C09/stranding/max-frame-size-lowered-while-data-is-held/data-held-despite-credit", "%d octets held by the relay did not arrive within %v after the window was opened", c.Size, bound)
			slow = true
		}
		R.With(func(r *h2kit.Rec) {
			for _, vi := range r.Violations {
				if vi.Kind == "frame-size" {
					v.Addf("C09/frame-size/max-frame-size-lowered-while-data-is-held/frame-size", "the receiver lowered SETTINGS_MAX_FRAME_SIZE from 65 536 to 16 384, the acknowledgement arrived, then it opened the window: %s", vi.Detail)
				}
			}
		})
	}
	return v, slow
}

var fitPatience h2kit.Patience

func runFit(c FitCase) kit.Verdict {
	bound, revalidate := fitPatience.Bound()
	v, slow := runFitOnce(c, bound)
	allKnown := len(v) > 0
	for _, f := range v {
		allKnown = allKnown && kit.Known(f.Sig)
	}
	if !slow || allKnown {
		return v
	}
	if !revalidate {
		fitPatience.Spent(bound)
		return v
	}
	v2, slow2 := runFitOnce(c, 3*bound)
	if !slow2 {
		kit.Inconclusive("window-fit")
	} else if len(v2) > 0 {
		fitPatience.Confirm()
	}
	return v2
}

var propFit = &kit.Prop[FitCase]{
	ID: "C09", Name: "window-fit",
	Rule: "ALL of: a DATA frame of 16 384 / 1 000 octets held for a receiver whose stream window is 1 / 100 octets and which returns exactly the credit it consumes (everything must arrive); a DATA frame of 20 000 / 40 000 / 65 535 octets held while the receiver lowers SETTINGS_MAX_FRAME_SIZE from 65 536 to 16 384 (after the acknowledgement no frame above 16 384 may arrive); either direction; non-trivial = every case",
	Run:  runFit,
	Classes: func(c FitCase) []string {
		out := []string{"kind:" + c.Kind}
		if c.Reverse {
			out = append(out, "server-sends")
		}
		return out
	},
}

func TestWindowFit(t *testing.T) {
	if kit.Race() {
		t.Skip("sequential enumeration")
	}
	propFit.Enumerate(t, func(yield func(FitCase) bool) {
		for _, rev := range []bool{false, true} {
			for _, w := range []int{1, 100} {
				for _, size := range []int{1000, 16384} {
					if size/w > 2000 {
						continue // (one octet at a time: 1 000 round trips are enough)
					}
					if !yield(FitCase{Kind: "window", Reverse: rev, Window: w, Size: size}) {
						return
					}
				}
			}
			for _, size := range []int{20000, 40000, 65535} {
				if !yield(FitCase{Kind: "max-frame", Reverse: rev, Size: size}) {
					return
				}
			}
		}
	})
}
