package c09

import (
	"testing"
	"time"

	"verifharness/internal/kit"
	"verifharness/props/h2kit"
)

// FitCase: a DATA frame the relay has accepted is larger than what the receiver can take
// in one piece.
//
// Kind "window": the receiver announces a stream window of Window octets (the sender has
// not processed that yet and sends one frame of Size octets), and from then on returns
// exactly the credit it has consumed, as receivers do. A sender in the relay's place
// splits the data to fit the window; the whole frame must arrive in the end.
//
// Kind "max-frame": the receiver allows frames of 65 536 octets, the sender sends one of
// Size octets which the relay holds (zero stream window, not yet processed by the sender),
// the receiver then lowers SETTINGS_MAX_FRAME_SIZE to 16 384 and, once that has been
// acknowledged, opens the window: no frame above 16 384 octets may arrive any more.
//
// Kind "max-frame-headers": as max-frame, but what waits behind the held DATA is a header
// block (trailers) of Size octets, queued as one frame while 65 536 was in force.
//
// Kind "ack-overtakes" (the client receives): ten DATA frames of 60 000 octets are on
// their way through the relay to a client that is slow to take the first one; the client
// lowers SETTINGS_MAX_FRAME_SIZE to 16 384, the server acknowledges. No frame above 16 384
// octets may reach the client after that acknowledgement.
type FitCase struct {
	Kind    string `json:"kind"`
	Reverse bool   `json:"reverse,omitempty"`
	Window  int    `json:"window,omitempty"`
	Size    int    `json:"size"`
}

func runFitOnce(c FitCase, bound time.Duration) (v kit.Verdict, slow bool) {
	s, err := h2kit.Open(h2kit.Options{Bound: bound})
	if err != nil {
		return kit.Failf("C09/session/setup/relay-did-not-connect", "%v", err), true
	}
	defer s.Teardown(bound)
	S, R := s.Client, s.Server
	if c.Reverse {
		S, R = s.Server, s.Client
	}
	s.Client.WritePreface()
	if c.Kind != "window" {
		R.WriteSettings(h2kit.Setting{ID: 5, Val: 65536})
	} else {
		R.WriteSettings()
	}
	S.WriteSettings()
	if !S.Wait(bound, func(r *h2kit.Rec) bool { return (len(r.Settings) >= 1 && r.Acks >= 1) || r.Done }) ||
		!R.Wait(bound, func(r *h2kit.Rec) bool { return (len(r.Settings) >= 1 && r.Acks >= 1) || r.Done }) {
		return kit.Failf("C09/session/setup/settings-exchange-incomplete", "SETTINGS exchange did not complete within %v", bound), true
	}
	// (the sender has processed the first SETTINGS frame: it may use frames of up to 65 536 octets)
	S.SetAutoAck(false)
	req := []h2kit.Field{{N: ":method", V: "POST"}, {N: ":scheme", V: "https"}, {N: ":path", V: "/"}, {N: ":authority", V: "example.com"}}
	s.Client.WriteHeaders(h2kit.HeadersSpec{Stream: 1, Pad: -1, Fields: req})
	if !s.Server.Wait(bound, func(r *h2kit.Rec) bool { return len(r.Streams[1]) > 0 || r.Done }) {
		return kit.Failf("C09/session/setup/streams-not-opened", "request HEADERS did not reach the server within %v", bound), true
	}
	if c.Reverse {
		S.WriteHeaders(h2kit.HeadersSpec{Stream: 1, Pad: -1, Fields: []h2kit.Field{{N: ":status", V: "200"}}})
	}
	if c.Kind == "ack-overtakes" {
		return runAckOvertakes(c, s, bound)
	}
	window := c.Window
	if c.Kind == "max-frame" || c.Kind == "max-frame-headers" {
		window = 0
	}
	// the receiver's new window; the sender has it on its way but has not processed it
	R.WriteSettings(h2kit.Setting{ID: 4, Val: uint32(window)})
	if !S.Wait(bound, func(r *h2kit.Rec) bool { return len(r.Settings) >= 2 || r.Done }) {
		return kit.Failf("C09/session/receiver-to-sender/barrier-not-forwarded", "the receiver's SETTINGS frame did not reach the sender within %v", bound), true
	}
	if c.Kind == "max-frame-headers" {
		S.SetMaxFragment(65000)
		S.WriteData(1, kit.Bytes(9, 1000), -1, false)
		S.WriteHeaders(h2kit.HeadersSpec{Stream: 1, Pad: -1, EndStream: true, Fields: []h2kit.Field{{N: "x-trailer", V: string(kit.Bytes(5, c.Size)), S: true}}})
	} else {
		S.WriteData(1, kit.Bytes(9, c.Size), -1, true)
	}
	S.WritePing(false, h2kit.MarkerPing(1))
	if !R.Wait(bound, func(r *h2kit.Rec) bool { return r.HasMarker(1) || r.Done }) {
		return kit.Failf("C09/session/sender-to-receiver/barrier-not-forwarded", "the sender's barrier PING did not reach the receiver within %v", bound), true
	}
	report := func() {
		R.With(func(r *h2kit.Rec) {
			for _, vi := range r.Violations {
				shape := "frame-larger-than-the-stream-window"
				if c.Kind == "max-frame" {
					shape = "max-frame-size-lowered-while-data-is-held"
				}
				v.Addf("C09/overrun/"+shape+"/"+vi.Kind, "%s", vi.Detail)
			}
			r.Violations = nil
		})
	}

	switch c.Kind {
	case "window":
		// consume and re-grant until everything is there or nothing moves any more
		got := 0
		patience := bound
		if kit.Known("C09/stranding/frame-larger-than-the-stream-window/data-not-split-to-fit") {
			patience = bound / 6 // already an open finding: not waited for at length
		}
		for got < c.Size {
			want := got + 1
			if !R.Wait(patience, func(r *h2kit.Rec) bool { return r.DataBytes[1] >= want || r.Done }) {
				conn, str := R.Credit(1)
				v.Addf("C09/stranding/frame-larger-than-the-stream-window/data-not-split-to-fit", "the relay holds a DATA frame of %d octets for a receiver whose stream window is %d octets (it returns the credit it consumes); %d octets arrived, then nothing for %v with stream credit %d and connection credit %d", c.Size, c.Window, got, bound, str, conn)
				slow = true
				break
			}
			var now int
			R.With(func(r *h2kit.Rec) { now = r.DataBytes[1] })
			R.WriteWindowUpdate(1, uint32(now-got))
			R.WriteWindowUpdate(0, uint32(now-got))
			got = now
		}
		report()
	case "max-frame", "max-frame-headers":
		R.WriteSettings(h2kit.Setting{ID: 5, Val: 16384})
		if !S.Wait(bound, func(r *h2kit.Rec) bool { return len(r.Settings) >= 3 || r.Done }) {
			return kit.Failf("C09/session/receiver-to-sender/barrier-not-forwarded", "the receiver's SETTINGS frame did not reach the sender within %v", bound), true
		}
		acks := 0
		R.With(func(r *h2kit.Rec) { acks = r.Acks })
		S.AckSettings() // the sender has now processed everything, including the smaller frame size
		if !R.Wait(bound, func(r *h2kit.Rec) bool { return r.Acks >= acks+2 || r.Done }) {
			return kit.Failf("C09/session/sender-to-receiver/barrier-not-forwarded", "the sender's SETTINGS acknowledgements did not reach the receiver within %v", bound), true
		}
		R.SetAdvertisedMaxFrame(16384) // acknowledged: from here on the receiver enforces it
		R.WriteWindowUpdate(1, 1<<20)
		if c.Kind == "max-frame-headers" {
			if !R.Wait(bound, func(r *h2kit.Rec) bool {
				evs := r.Streams[1]
				return (len(evs) > 0 && evs[len(evs)-1].Kind == "H" && evs[len(evs)-1].End) || r.Done
			}) {
				v.Addf("C09/stranding/max-frame-size-lowered-while-a-header-block-is-held/data-held-despite-credit", "the trailers held by the relay did not arrive within %v after the window was opened", bound)
				slow = true
			}
			R.With(func(r *h2kit.Rec) {
				for _, vi := range r.Violations {
					if vi.Kind == "frame-size" {
						v.Addf("C09/frame-size/max-frame-size-lowered-while-a-header-block-is-held/frame-size", "the receiver lowered SETTINGS_MAX_FRAME_SIZE from 65 536 to 16 384, the acknowledgement arrived, then it opened the window for the DATA in front of the trailers: %s", vi.Detail)
						break
					}
				}
			})
			break
		}
		if !R.Wait(bound, func(r *h2kit.Rec) bool { return r.DataBytes[1] >= c.Size || r.Done }) {
			v.Addf("C09/stranding/max-frame-size-lowered-while-data-is-held/data-held-despite-credit", "%d octets held by the relay did not arrive within %v after the window was opened", c.Size, bound)
			slow = true
		}
		R.With(func(r *h2kit.Rec) {
			for _, vi := range r.Violations {
				if vi.Kind == "frame-size" {
					v.Addf("C09/frame-size/max-frame-size-lowered-while-data-is-held/frame-size", "the receiver lowered SETTINGS_MAX_FRAME_SIZE from 65 536 to 16 384, the acknowledgement arrived, then it opened the window: %s", vi.Detail)
				}
			}
		})
	}
	return v, slow
}

func runAckOvertakes(c FitCase, s *h2kit.Session, bound time.Duration) (v kit.Verdict, slow bool) {
	cl, sv := s.Client, s.Server
	// (the server has processed the client's 65 536; the client now opens its windows wide)
	cl.WriteSettings(h2kit.Setting{ID: 4, Val: 1 << 30})
	cl.WriteWindowUpdate(0, 1<<30)
	if !sv.Wait(bound, func(r *h2kit.Rec) bool { return len(r.Settings) >= 2 || r.Done }) {
		return kit.Failf("C09/session/receiver-to-sender/barrier-not-forwarded", "the client's SETTINGS frame did not reach the server within %v", bound), true
	}
	sv.AckSettings()
	if !cl.Wait(bound, func(r *h2kit.Rec) bool { return r.Acks >= 2 || r.Done }) {
		return kit.Failf("C09/session/sender-to-receiver/barrier-not-forwarded", "the server's acknowledgement did not reach the client within %v", bound), true
	}
	s.Duplex.StallRelayWrites() // the client is slow to take what comes next
	sent := 0
	for i := 0; i < 10; i++ {
		need := int64(sent + 60000)
		if !sv.Wait(bound, func(r *h2kit.Rec) bool { return r.Done || 65535+int64(r.WU[0]) >= need }) {
			break // (the relay has stopped reading: enough is under way)
		}
		sv.WriteData(1, kit.Bytes(uint64(i), 60000), -1, false)
		sent += 60000
	}
	kit.Eventually(bound, func() bool { return s.Duplex.StalledWrites() >= 1 })
	cl.LowerMaxFrameOnNextAck(16384)
	cl.WriteSettings(h2kit.Setting{ID: 5, Val: 16384})
	if !sv.Wait(bound, func(r *h2kit.Rec) bool { return len(r.Settings) >= 3 || r.Done }) {
		return kit.Failf("C09/session/receiver-to-sender/barrier-not-forwarded", "the client's SETTINGS frame did not reach the server within %v", bound), true
	}
	sv.AckSettings()
	time.Sleep(20 * time.Millisecond) // (sets the scene: the acknowledgement is waiting behind the stalled write)
	s.Duplex.ResumeRelayWrites()
	if !cl.Wait(bound, func(r *h2kit.Rec) bool { return (r.Acks >= 3 && r.DataBytes[1] >= sent) || r.Done }) {
		v.Addf("C09/stranding/settings-ack-and-data-in-transit/data-held-despite-credit", "%d octets sent, not all arrived within %v", sent, bound)
		slow = true
	}
	cl.With(func(r *h2kit.Rec) {
		n := 0
		first := ""
		for _, vi := range r.Violations {
			if vi.Kind == "frame-size" {
				if n == 0 {
					first = vi.Detail
				}
				n++
			}
		}
		if n > 0 {
			v.Addf("C09/frame-size/settings-ack-overtakes-data-in-the-output-channel/frame-size", "the client lowered SETTINGS_MAX_FRAME_SIZE to 16 384 while %d octets in 60 000-octet frames were on their way to it; %d such frames arrived AFTER the acknowledgement (first: %s)", sent, n, first)
		}
	})
	return v, slow
}

var fitPatience h2kit.Patience

func runFit(c FitCase) kit.Verdict {
	bound, revalidate := fitPatience.Bound()
	v, slow := runFitOnce(c, bound)
	allKnown := len(v) > 0
	for _, f := range v {
		allKnown = allKnown && kit.Known(f.Sig)
	}
	if !slow || allKnown {
		return v
	}
	if !revalidate {
		fitPatience.Spent(bound)
		return v
	}
	v2, slow2 := runFitOnce(c, 3*bound)
	if !slow2 {
		kit.Inconclusive("window-fit")
	} else if len(v2) > 0 {
		fitPatience.Confirm()
	}
	return v2
}

var propFit = &kit.Prop[FitCase]{
	ID: "C09", Name: "window-fit",
	Rule: "ALL of: a DATA frame of 16 384 / 1 000 octets held for a receiver whose stream window is 1 / 100 octets and which returns exactly the credit it consumes (everything must arrive); a DATA frame of 20 000 / 40 000 / 65 535 octets held while the receiver lowers SETTINGS_MAX_FRAME_SIZE from 65 536 to 16 384 (after the acknowledgement no frame above 16 384 may arrive); either direction; non-trivial = every case",
	Run:  runFit,
	Classes: func(c FitCase) []string {
		out := []string{"kind:" + c.Kind}
		if c.Reverse {
			out = append(out, "server-sends")
		}
		return out
	},
}

func TestWindowFit(t *testing.T) {
	if kit.Race() {
		t.Skip("sequential enumeration")
	}
	propFit.Enumerate(t, func(yield func(FitCase) bool) {
		for _, rev := range []bool{false, true} {
			for _, w := range []int{1, 100} {
				for _, size := range []int{1000, 16384} {
					if size/w > 2000 {
						continue // (one octet at a time: 1 000 round trips are enough)
					}
					if !yield(FitCase{Kind: "window", Reverse: rev, Window: w, Size: size}) {
						return
					}
				}
			}
			for _, size := range []int{20000, 40000, 65535} {
				if !yield(FitCase{Kind: "max-frame", Reverse: rev, Size: size}) {
					return
				}
			}
			if !yield(FitCase{Kind: "max-frame-headers", Reverse: rev, Size: 40000}) {
				return
			}
			if rev && !yield(FitCase{Kind: "ack-overtakes", Reverse: true, Size: 60000}) {
				return
			}
		}
	})
}
