package c09

import (
	"fmt"
	"testing"

	"verifharness/internal/kit"
	"verifharness/props/h2kit"
)

// SizeCase sends one header block whose re-encoded size is around the
// receiver's maximum frame size: the relay has to split it into HEADERS +
// CONTINUATION frames none of which exceeds what the receiver announced.
type SizeCase struct {
	Reverse bool `json:"reverse,omitempty"` // the server sends the block
	Max     int  `json:"max"`               // receiver's SETTINGS_MAX_FRAME_SIZE (0: default 16 384, nothing announced)
	Value   int  `json:"value"`             // length of the incompressible header value
	Prio    bool `json:"prio,omitempty"`    // HEADERS carries a priority section
	Trail   bool `json:"trail,omitempty"`   // followed by a small second block (continuity of the stream)
	// SenderMax: what the SENDER of the block announces as its own SETTINGS_MAX_FRAME_SIZE (0:
	// nothing). It says what the sender is prepared to receive and must not change what the
	// receiver gets.
	SenderMax int `json:"sender_max,omitempty"`
}

func runSize(c SizeCase) kit.Verdict {
	bound := kit.T()
	s, err := h2kit.Open(h2kit.Options{Bound: bound})
	if err != nil {
		return kit.Failf("C09/session/setup/relay-did-not-connect", "%v", err)
	}
	defer s.Teardown(bound)
	S, R := s.Client, s.Server
	if c.Reverse {
		S, R = s.Server, s.Client
	}
	s.Client.WritePreface()
	if c.Max > 0 {
		R.WriteSettings(h2kit.Setting{ID: 5, Val: uint32(c.Max)})
	} else {
		R.WriteSettings()
	}
	if c.SenderMax > 0 {
		S.WriteSettings(h2kit.Setting{ID: 5, Val: uint32(c.SenderMax)})
	} else {
		S.WriteSettings()
	}
	ok := S.Wait(bound, func(r *h2kit.Rec) bool { return (len(r.Settings) >= 1 && r.Acks >= 1) || r.Done }) &&
		R.Wait(bound, func(r *h2kit.Rec) bool { return (len(r.Settings) >= 1 && r.Acks >= 1) || r.Done })
	if !ok {
		return kit.Failf("C09/session/setup/settings-exchange-incomplete", "SETTINGS exchange did not complete within %v", bound)
	}
	req := []h2kit.Field{{N: ":method", V: "POST"}, {N: ":scheme", V: "https"}, {N: ":path", V: "/"}, {N: ":authority", V: "example.com"}}
	big := h2kit.Field{N: "x-bin", V: string(kit.Bytes(uint64(c.Value), c.Value))}
	var prio *h2kit.Prio
	if c.Prio {
		prio = &h2kit.Prio{Dep: 0, Weight: 200}
	}
	if c.Reverse {
		s.Client.WriteHeaders(h2kit.HeadersSpec{Stream: 1, Pad: -1, Fields: req})
		if !s.Server.Wait(bound, func(r *h2kit.Rec) bool { return len(r.Streams[1]) > 0 || r.Done }) {
			return kit.Failf("C09/session/setup/streams-not-opened", "request HEADERS did not reach the server within %v", bound)
		}
		S.WriteHeaders(h2kit.HeadersSpec{Stream: 1, Pad: -1, Prio: prio, Fields: []h2kit.Field{{N: ":status", V: "200"}, big}})
	} else {
		S.WriteHeaders(h2kit.HeadersSpec{Stream: 1, Pad: -1, Prio: prio, Fields: append(req, big)})
	}
	want := 1
	if c.Reverse {
		want = 1
	}
	if c.Trail {
		S.WriteHeaders(h2kit.HeadersSpec{Stream: 1, Pad: -1, EndStream: true, Fields: []h2kit.Field{{N: "x-trail", V: "1"}}})
		want++
	}
	var v kit.Verdict
	if !R.Wait(bound, func(r *h2kit.Rec) bool { return len(r.Streams[1]) >= want || r.Done }) {
		if !R.Wait(2*bound, func(r *h2kit.Rec) bool { return len(r.Streams[1]) >= want || r.Done }) {
			v.Addf("C09/frame-size/large-header-block/block-not-delivered", "a header block with a %d-octet value did not arrive within %v", c.Value, 3*bound)
		} else {
			kit.Inconclusive("frame-size")
		}
	}
	R.With(func(r *h2kit.Rec) {
		for _, vi := range r.Violations {
			shape := "headers-without-priority"
			if c.Prio {
				shape = "headers-with-priority"
			}
			if c.SenderMax > 0 {
				shape += "+sender-allows-larger-frames"
			}
			v.Addf("C09/frame-size/"+shape+"/"+vi.Kind, "receiver announced %d: %s", R.AdvertisedMaxFrameLocked(), vi.Detail)
		}
		evs := r.Streams[1]
		if len(evs) >= 1 {
			ev := evs[0]
			last := ev.Fields
			if ev.DecodeErr != "" || len(last) == 0 || last[len(last)-1].V != big.V {
				v.Addf("C09/frame-size/large-header-block/block-damaged", "the re-split header block does not decode to the value sent (%d octets): %s", c.Value, fmt.Sprint(ev.DecodeErr))
			}
		}
	})
	return v
}

var propFrameSize = &kit.Prop[SizeCase]{
	ID: "C09", Name: "frame-size",
	Rule: "ALL header blocks whose incompressible value is within +-12 octets of the receiver's maximum frame size (default, 16 384 announced, 20 000) or twice that, with and without a priority section, either direction, optionally followed by trailers; every frame the receiver gets must fit the maximum it announced and the block must decode to the value sent; non-trivial = every case (the block needs at least one CONTINUATION)",
	Run:  runSize,
	Classes: func(c SizeCase) []string {
		var out []string
		if c.Prio {
			out = append(out, "priority-section")
		}
		if c.Reverse {
			out = append(out, "server-sends")
		}
		if c.Max > 16384 {
			out = append(out, "raised-max-frame-size")
		}
		if c.SenderMax > 0 {
			out = append(out, "asymmetric-max-frame-size")
		}
		return out
	},
}

func TestFrameSize(t *testing.T) {
	if kit.Race() {
		t.Skip("sequential enumeration")
	}
	propFrameSize.Enumerate(t, func(yield func(SizeCase) bool) {
		// asymmetric limits: the sender of the block takes frames of 1 MiB itself, the receiver
		// keeps the default (or 20 000)
		for _, max := range []int{0, 20000} {
			eff := max
			if eff == 0 {
				eff = 16384
			}
			for _, value := range []int{eff - 100, eff + 1, 40000, 100000} {
				for _, prio := range []bool{false, true} {
					for _, rev := range []bool{false, true} {
						if !yield(SizeCase{Max: max, SenderMax: 1 << 20, Value: value, Prio: prio, Reverse: rev, Trail: value == 40000}) {
							return
						}
					}
				}
			}
		}
		for _, max := range []int{0, 16384, 20000} {
			eff := max
			if eff == 0 {
				eff = 16384
			}
			for _, mult := range []int{1, 2} {
				for d := -12; d <= 12; d++ {
					for _, prio := range []bool{false, true} {
						c := SizeCase{Max: max, Value: eff*mult + d, Prio: prio, Reverse: (d+mult)%2 == 0, Trail: d%3 == 0}
						if !kit.Thorough() && mult == 2 && d%2 != 0 {
							continue
						}
						if !yield(c) {
							return
						}
					}
				}
			}
		}
	})
}
