// Package c09 decides property C09: the HTTP/2 relay obeys receiver windows,
// returns exact credit and never strands data.
package c09

import (
	"fmt"
	"sort"
	"testing"
	"time"

	"pgregory.net/rapid"

	"verifharness/internal/kit"
	"verifharness/props/h2kit"
)

func TestMain(m *testing.M) { kit.Main(m, "C09") }

// Op is one step of a flow-control history. K:
//
//	send     the sender writes one DATA frame of N octets (+ padding) on stream S,
//	         with END_STREAM if End
//	wu       the receiver grants N octets on stream S (S = -1: the connection); N = -1 on the
//	         connection: as much as takes the connection window to its maximum 2^31-1
//	iws      the receiver announces SETTINGS_INITIAL_WINDOW_SIZE = N
//	maxframe the receiver announces SETTINGS_MAX_FRAME_SIZE = N (never lowered)
//	ack      the sender processes (and acknowledges) the SETTINGS it has received
//	churn    N short streams come and go (the client opens each with HEADERS + END_STREAM on a
//	         fresh identifier; when the server is the DATA sender it answers each the same
//	         way): the relay sees hundreds of stream identifiers while the measured
//	         streams stay open
//	goaway   the receiver announces a graceful shutdown: GOAWAY(NO_ERROR) whose last stream
//	         identifier covers every stream the peer has opened (a client names the pushed
//	         streams it has seen - none, 0; a server the highest request stream). The
//	         streams that are open go on; their DATA must still be delivered.
//	rst      the receiver resets stream S (RST_STREAM CANCEL). The sender may still have
//	         DATA for that stream on its way: up to two later sends on S are such late
//	         frames. They count against the connection window like any DATA, so their
//	         connection-level credit must come back; delivery and stream-level credit
//	         are not demanded for them.
//
// Ack on iws/maxframe: the sender processes the new value at once; otherwise it
// keeps acting under the old one until an ack op, as an endpoint may while the
// frame is still on its way to it.
type Op struct {
	K   string `json:"k"`
	S   int    `json:"s,omitempty"`
	N   int    `json:"n,omitempty"`
	Pad int    `json:"pad"`
	Ack bool   `json:"ack,omitempty"`
	End bool   `json:"end,omitempty"` // send: the frame carries END_STREAM (nothing follows on that stream)
	// iws: the SETTINGS frame repeats the identifier, {INITIAL_WINDOW_SIZE=First,
	// INITIAL_WINDOW_SIZE=N}; the last value is the one in force (RFC 7540 6.5.3)
	Rep   bool `json:"rep,omitempty"`
	First int  `json:"first,omitempty"`
	// send: Cnt > 1 writes that many identical frames back to back in one step (END_STREAM,
	// if any, on the last); together they stay inside what the sender may assume
	Cnt int `json:"cnt,omitempty"`
}

func (op Op) count() int {
	if op.K == "send" && op.Cnt > 1 {
		return op.Cnt
	}
	return 1
}

// Case is one relay session with one DATA sender.
type Case struct {
	Reverse bool `json:"reverse,omitempty"` // the server sends, the client receives
	// Lazy (with Reverse): the server answers a stream only just before its first DATA on
	// it, so a WINDOW_UPDATE the client sends for the stream earlier reaches the relay
	// before the relay has forwarded anything on that stream toward the client.
	Lazy    bool `json:"lazy,omitempty"`
	Streams int  `json:"streams"`
	Ops     []Op `json:"ops"`
	Procs   int  `json:"procs,omitempty"`
}

const sentinel = 0x7fffff01

// ---------------------------------------------------------------- pure model (generation, labels)

func flowLen(op Op) int {
	if op.Pad >= 0 {
		return op.N + 1 + op.Pad
	}
	return op.N
}

// ref is a frame-granular reference of the relay's send side (lowest stream
// first when the connection window is short). It only classifies cases and
// steers the generator; the oracle does not use it.
type ref struct {
	conn, iws                 int
	win                       []int
	queue                     [][]int
	lastStreamGrantStillShort bool
	sent                      []bool // a DATA frame has been sent on the stream
	reset                     []bool // the receiver has reset the stream
	set                       map[string]bool
}

func newRef(streams int) *ref {
	r := &ref{conn: 65535, iws: 65535, win: make([]int, streams), queue: make([][]int, streams), sent: make([]bool, streams), reset: make([]bool, streams), set: map[string]bool{}}
	for i := range r.win {
		r.win[i] = r.iws
	}
	return r
}

func (r *ref) drain() {
	for moved := true; moved; {
		moved = false
		for s := range r.queue {
			for len(r.queue[s]) > 0 && r.queue[s][0] <= r.win[s] && r.queue[s][0] <= r.conn {
				n := r.queue[s][0]
				r.queue[s] = r.queue[s][1:]
				r.win[s] -= n
				r.conn -= n
				moved = true
				if n > 0 && (r.win[s] == 0 || r.conn == 0) {
					r.set["window-reaches-zero"] = true
				}
			}
		}
	}
}

// blocked returns a stream with queued data (-1 if none) and whether it is the
// connection window that holds it.
func (r *ref) blocked() (stream int, byConn bool) {
	for s, q := range r.queue {
		if len(q) > 0 {
			return s, q[0] <= r.win[s]
		}
	}
	return -1, false
}

func (r *ref) apply(op Op) {
	switch op.K {
	case "goaway":
		r.set["receiver-sent-goaway"] = true
	case "churn":
		r.set["many-other-streams"] = true
		for s := range r.sent {
			if r.sent[s] && !r.reset[s] {
				r.set["many-other-streams-while-a-stream-has-window-state"] = true
			}
		}
	case "rst":
		r.reset[op.S] = true
		r.queue[op.S] = nil // whatever was held for it need not be delivered any more
		r.set["stream-reset-by-receiver"] = true
	case "send":
		if r.reset[op.S] {
			if flowLen(op) > 0 {
				r.set["data-after-reset"] = true
			}
			return
		}
		if op.Pad >= 0 {
			r.set["padded-data"] = true
			if op.N == 0 {
				r.set["padding-only-data"] = true
			}
		}
		r.sent[op.S] = true
		if op.End {
			r.set["end-stream-data"] = true
			if op.N > 0 {
				r.set["end-stream-with-payload"] = true
			}
		}
		for i := 0; i < op.count(); i++ {
			r.queue[op.S] = append(r.queue[op.S], op.N)
		}
		if op.count() > 15 {
			r.set["burst-of-frames"] = true
		}
		r.drain()
		if s, byConn := r.blocked(); s >= 0 {
			r.set["data-queued"] = true
			if byConn {
				r.set["connection-window-blocks"] = true
			}
		}
	case "wu":
		if op.N == 1 {
			r.set["one-byte-increment"] = true
		}
		if op.N < 0 {
			r.set["connection-window-at-its-maximum"] = true
			op.N = 1<<31 - 1 - r.conn
		}
		if op.S >= 0 && !r.sent[op.S] {
			r.set["grant-before-first-frame"] = true
		}
		before, _ := r.blocked()
		var qlen int
		if before >= 0 {
			qlen = len(r.queue[before])
		}
		if op.S < 0 {
			if r.lastStreamGrantStillShort {
				r.set["stream-grant-then-connection-grant"] = true
			}
			r.conn += op.N
			r.set["connection-window-update"] = true
		} else {
			r.win[op.S] += op.N
		}
		// a stream grant that left its stream waiting for the connection window only
		r.lastStreamGrantStillShort = op.S >= 0 && len(r.queue[op.S]) > 0 && r.queue[op.S][0] <= r.win[op.S] && r.queue[op.S][0] > r.conn
		r.drain()
		if before >= 0 && len(r.queue[before]) < qlen {
			r.set["released-by-window-update"] = true
			if qlen-len(r.queue[before]) > 15 {
				r.set["more-than-15-frames-released-at-once"] = true
			}
		}
	case "iws":
		before, _ := r.blocked()
		var qlen int
		if before >= 0 {
			r.set["settings-change-with-data-queued"] = true
			qlen = len(r.queue[before])
		}
		if op.N < r.iws {
			r.set["window-lowered"] = true
		}
		if op.Rep && op.First != op.N {
			r.set["repeated-settings-identifier"] = true
		}
		for s := range r.win {
			r.win[s] += op.N - r.iws
			if r.win[s] < 0 {
				r.set["negative-window"] = true
			}
		}
		r.iws = op.N
		if r.iws == 0 {
			r.set["zero-initial-window"] = true
		}
		if !op.Ack {
			r.set["sender-lags-settings"] = true
		}
		r.drain()
		if before >= 0 && len(r.queue[before]) < qlen {
			r.set["released-by-settings"] = true
			if qlen-len(r.queue[before]) > 15 {
				r.set["more-than-15-frames-released-at-once"] = true
			}
		}
	case "maxframe":
		r.set["max-frame-size-raised"] = true
	}
}

func labels(c Case) map[string]bool {
	r := newRef(c.Streams)
	for _, op := range c.Ops {
		r.apply(op)
	}
	if c.Reverse {
		r.set["server-sends"] = true
	}
	if !(c.Reverse && c.Lazy) {
		delete(r.set, "grant-before-first-frame") // the relay has forwarded HEADERS on every stream during setup
	}
	if c.Streams > 1 {
		r.set["multi-stream"] = true
	}
	return r.set
}

func classes(c Case) []string {
	var out []string
	for k := range labels(c) {
		out = append(out, k)
	}
	sort.Strings(out)
	return out
}

func nontrivial(c Case) bool {
	l := labels(c)
	return l["window-reaches-zero"] || l["settings-change-with-data-queued"] || l["padded-data"] || l["one-byte-increment"]
}

func genCase(t *rapid.T) Case {
	c := Case{
		Reverse: rapid.Bool().Draw(t, "reverse"),
		Streams: rapid.IntRange(1, 4).Draw(t, "streams"),
		Procs:   rapid.SampledFrom([]int{0, 0, 0, 2, 3}).Draw(t, "procs"),
	}
	c.Lazy = c.Reverse && rapid.Bool().Draw(t, "lazy")
	padding := rapid.IntRange(0, 9).Draw(t, "padding") < 4 // cases without any padded frame keep the credit check exact to the end
	n := rapid.IntRange(1, kit.N(25, 60)).Draw(t, "nops")
	// what the sender may assume (it must stay inside the windows and frame
	// size the relay has shown it) and what the receiver has announced
	sIWS, sMax := 65535, 16384
	rIWS, rMax := 65535, 16384
	pending := false
	model := newRef(c.Streams)
	closed := make([]bool, c.Streams)
	churned, wentAway, filled := false, false, false
	late := make([]int, c.Streams) // DATA frames the sender may still send on a stream the receiver has reset
	if c.Lazy && rapid.Bool().Draw(t, "early_grant") {
		// credit for a stream the server has not answered yet, and room on the connection
		for _, op := range []Op{
			{K: "wu", Pad: -1, S: rapid.IntRange(0, c.Streams-1).Draw(t, "early_stream"), N: rapid.SampledFrom([]int{1, 100, 16384, 1 << 20}).Draw(t, "early_inc")},
			{K: "wu", Pad: -1, S: -1, N: 1 << 20},
		} {
			model.apply(op)
			c.Ops = append(c.Ops, op)
		}
	}
	for i := 0; i < n; i++ {
		held, byConn := model.blocked()
		kinds := []string{"send", "send", "send", "send", "send", "send", "wu", "wu", "iws", "iws", "maxframe", "ack", "rst"}
		if held >= 0 {
			kinds = []string{"send", "send", "send", "wu", "wu", "wu", "wu", "wu", "wu", "iws", "iws", "ack", "rst"}
		}
		k := rapid.SampledFrom(kinds).Draw(t, "kind")
		if !churned && i > 2 && rapid.IntRange(0, 59).Draw(t, "churn") == 0 {
			k, churned = "churn", true
		}
		if !wentAway && rapid.IntRange(0, 99).Draw(t, "goaway") == 0 {
			k, wentAway = "goaway", true
		}
		if !filled && rapid.IntRange(0, 99).Draw(t, "fill") == 0 {
			// the connection window taken to its maximum early, so that later increments
			// (each of which only returns what was consumed) add up to more than 2^31
			filled = true
			fill := Op{K: "wu", Pad: -1, S: -1, N: -1}
			model.apply(fill)
			c.Ops = append(c.Ops, fill)
			held, byConn = model.blocked()
		}
		op := Op{K: k, Pad: -1}
		switch k {
		case "goaway":
		case "churn":
			op.N = rapid.SampledFrom([]int{260, 300}).Draw(t, "churn_streams")
		case "rst":
			op.S = rapid.IntRange(0, c.Streams-1).Draw(t, "rst_stream")
			if model.reset[op.S] {
				op = Op{K: "wu", Pad: -1, S: -1, N: 1}
				break
			}
			late[op.S] = 2
			// the late frames usually follow at once
			if !closed[op.S] && rapid.IntRange(0, 3).Draw(t, "late_now") > 0 {
				model.apply(op)
				c.Ops = append(c.Ops, op)
				op = Op{K: "send", Pad: -1, S: op.S}
				limit := sIWS
				if limit > 65535 {
					limit = 65535
				}
				if sMax < limit {
					limit = sMax
				}
				op.N = rapid.SampledFrom([]int{1, 100, 1000, 16384}).Draw(t, "late_size")
				if op.N > limit {
					op.N = limit
				}
				late[op.S]--
			}
		case "send":
			op.S = rapid.IntRange(0, c.Streams-1).Draw(t, "stream")
			if model.reset[op.S] && !closed[op.S] {
				if late[op.S] > 0 {
					late[op.S]--
				} else {
					closed[op.S] = true // the sender has seen the reset by now
				}
			}
			if closed[op.S] {
				// the sender has ended that stream: use another one, or do something else
				op.S = -1
				for s := range closed {
					if !closed[s] {
						op.S = s
					}
				}
				if op.S < 0 {
					op = Op{K: "wu", Pad: -1, S: -1, N: 1}
					break
				}
			}
			op.End = rapid.IntRange(0, 7).Draw(t, "end") == 0
			closed[op.S] = op.End
			limit := sIWS
			if limit > 65535 {
				limit = 65535
			}
			if sMax < limit {
				limit = sMax
			}
			if padding {
				switch rapid.IntRange(0, 5).Draw(t, "padkind") {
				case 0:
					op.Pad = rapid.SampledFrom([]int{0, 1, 255}).Draw(t, "padedge")
				case 1:
					op.Pad = rapid.IntRange(0, 255).Draw(t, "pad")
				}
			}
			if op.Pad >= 0 && 1+op.Pad > limit {
				op.Pad = -1
			}
			over := 0
			if op.Pad >= 0 {
				over = 1 + op.Pad
			}
			switch rapid.IntRange(0, 5).Draw(t, "sizekind") {
			case 0, 1, 2:
				op.N = limit - over // as much as the sender may
			case 3:
				op.N = rapid.SampledFrom([]int{0, 1, 2, 100, 1000, 16384}).Draw(t, "size")
			case 4:
				// exactly what the receiver's stream window still admits
				op.N = model.win[op.S]
			default:
				op.N = rapid.IntRange(0, 70000).Draw(t, "size_u")
			}
			if op.N < 0 {
				op.N = 0
			}
			if op.N+over > limit {
				op.N = limit - over
			}
			if rapid.IntRange(0, 13).Draw(t, "burst") == 0 && limit >= 16 {
				// many small frames in one step
				op.Pad, op.N = -1, rapid.SampledFrom([]int{1, 5, 50}).Draw(t, "burst_size")
				op.Cnt = rapid.SampledFrom([]int{16, 20, 64, 200}).Draw(t, "burst_count")
				if op.Cnt*op.N > limit {
					op.N = 1
				}
				if op.Cnt > limit {
					op.Cnt = limit
				}
			}
		case "wu":
			op.S = rapid.IntRange(-1, c.Streams-1).Draw(t, "target")
			if op.S >= 0 && model.reset[op.S] {
				op.S = -1 // no credit for a stream the receiver has reset
			}
			op.N = rapid.SampledFrom([]int{1, 1, 2, 10, 100, 1000, 16383, 16384, 65535, 1 << 20}).Draw(t, "inc")
			if held >= 0 && rapid.IntRange(0, 3).Draw(t, "aimed") > 0 {
				// aim at what holds the data: just enough, one short, one octet
				op.S = held
				need := model.queue[held][0] - model.win[held]
				if byConn {
					op.S = -1
					need = model.queue[held][0] - model.conn
				}
				all := -model.win[held]
				for _, n := range model.queue[held] {
					all += n
				}
				switch rapid.IntRange(0, 4).Draw(t, "aim") {
				case 4:
					op.N = need
					if !byConn {
						op.N = all // everything that is queued on the stream at once
					}
				case 0, 1:
					op.N = need
				case 2:
					op.N = need - 1
				default:
					op.N = 1
				}
				if op.N < 1 {
					op.N = 1
				}
			}
			if held >= 0 && !byConn && op.S == held && len(model.queue[held]) > 0 && model.queue[held][0] > model.conn && rapid.Bool().Draw(t, "then_connection") {
				// the stream lacks room in its own window AND in the connection's: the stream's
				// grant comes first, the connection's right behind it
				model.apply(op)
				c.Ops = append(c.Ops, op)
				op = Op{K: "wu", Pad: -1, S: -1, N: model.queue[held][0] - model.conn}
				if len(model.queue[held]) == 0 || op.N < 1 {
					op.N = 1
				}
			}
			if op.S < 0 && op.N > 1<<31-1-model.conn {
				op.N = 1<<31 - 1 - model.conn // (the executor clamps again, against what really arrived)
				if op.N < 1 {
					op = Op{K: "ack", Pad: -1}
				}
			}
		case "iws":
			op.N = rapid.SampledFrom([]int{0, 1, 2, 100, 1000, 16384, 16384, 65535, 65535, 1 << 20}).Draw(t, "iws")
			op.Ack = rapid.Bool().Draw(t, "acknow")
			// Only while the relay holds no data: an intermediate value that released
			// queued frames before the last one takes effect would be a grey area.
			if held < 0 && rapid.IntRange(0, 1).Draw(t, "repeated") == 0 {
				op.Rep = true
				op.First = rapid.SampledFrom([]int{0, 20, 1000, 65535, 70000, 1 << 20}).Draw(t, "iws_first")
			}
			rIWS = op.N
			if op.Ack {
				sIWS, sMax, pending = rIWS, rMax, false
			} else {
				pending = true
			}
		case "maxframe":
			v := rapid.SampledFrom([]int{16384, 20000, 65536, 1 << 20}).Draw(t, "maxframe")
			if v < rMax {
				v = rMax
			}
			op.N = v
			op.Ack = rapid.Bool().Draw(t, "acknow")
			rMax = v
			if op.Ack {
				sIWS, sMax, pending = rIWS, rMax, false
			} else {
				pending = true
			}
		case "ack":
			if pending {
				sIWS, sMax, pending = rIWS, rMax, false
			}
		}
		model.apply(op)
		c.Ops = append(c.Ops, op)
	}
	return c
}

// ---------------------------------------------------------------- execution

type session struct {
	c       Case
	s       *h2kit.Session
	S, R    *h2kit.Endpoint
	bound   time.Duration
	markers uint32
	flushes int
	slow    bool
	v       kit.Verdict

	ids      []uint32
	accepted [][]int          // per stream: sizes of the DATA frames the relay has accepted
	total    []int            // per stream: data octets accepted
	wantWU   map[uint32]int64 // credit the sender is owed
	optWU    map[uint32]int64 // part of wantWU[stream] that may be withheld (DATA sent on a stream the receiver had reset)
	reset    []bool           // the receiver has reset the stream
	creditOK bool             // false once a credit failure was reported (report once)
	gaveUp   bool             // a stranding failure was reported: the case is decided
	nextID   uint32           // next identifier for a short-lived stream (churn)
}

func (x *session) fail(liveness bool, sig, format string, args ...interface{}) {
	x.v.Addf(sig, format, args...)
	if liveness {
		x.slow = true
	}
}

// settle makes sure the relay has processed every frame written so far by
// either side and that everything it released has arrived: a PING from the
// receiver to the sender, then a PRIORITY frame on an unused stream from the
// sender to the receiver (it travels through the relay's ordered output behind
// whatever was released), then a second PING back (it follows the credit the
// relay returned).
func (x *session) settle(between func()) bool {
	x.markers++
	x.R.WritePing(false, h2kit.MarkerPing(x.markers))
	m := x.markers
	if !x.S.Wait(x.bound, func(r *h2kit.Rec) bool { return r.HasMarker(m) || r.Done }) || x.done(x.S) {
		x.fail(true, "C09/session/receiver-to-sender/barrier-not-forwarded", "a PING from the receiver did not reach the sender within %v%s", x.bound, x.diag())
		return false
	}
	if between != nil {
		between()
	}
	x.flushes++
	x.S.WritePriority(sentinel, h2kit.Prio{Weight: uint8(x.flushes)})
	fl := x.flushes
	if !x.R.Wait(x.bound, func(r *h2kit.Rec) bool { return len(r.Streams[sentinel]) >= fl || r.Done }) || x.done(x.R) {
		x.fail(true, "C09/session/sender-to-receiver/barrier-not-forwarded", "a PRIORITY frame from the sender did not reach the receiver within %v%s", x.bound, x.diag())
		return false
	}
	x.markers++
	x.R.WritePing(false, h2kit.MarkerPing(x.markers))
	m = x.markers
	if !x.S.Wait(x.bound, func(r *h2kit.Rec) bool { return r.HasMarker(m) || r.Done }) || x.done(x.S) {
		x.fail(true, "C09/session/receiver-to-sender/barrier-not-forwarded", "a PING from the receiver did not reach the sender within %v%s", x.bound, x.diag())
		return false
	}
	return true
}

// churn lets n short streams come and go.
func (x *session) churn(n int) string {
	if x.nextID == 0 {
		x.nextID = 1001
	}
	req := []h2kit.Field{{N: ":method", V: "GET"}, {N: ":scheme", V: "https"}, {N: ":path", V: "/"}}
	first, last := x.nextID, uint32(0)
	for k := 0; k < n; k++ {
		last = x.nextID
		x.s.Client.WriteHeaders(h2kit.HeadersSpec{Stream: last, Pad: -1, EndStream: true, Fields: req})
		x.nextID += 2
	}
	if !x.s.Server.Wait(x.bound, func(r *h2kit.Rec) bool { return len(r.Streams[last]) > 0 || r.Done }) {
		return fmt.Sprintf("%d request HEADERS did not all reach the server within %v", n, x.bound)
	}
	if x.c.Reverse {
		for id := first; id <= last; id += 2 {
			x.s.Server.WriteHeaders(h2kit.HeadersSpec{Stream: id, Pad: -1, EndStream: true, Fields: []h2kit.Field{{N: ":status", V: "204"}}})
		}
		if !x.s.Client.Wait(x.bound, func(r *h2kit.Rec) bool { return len(r.Streams[last]) > 0 || r.Done }) {
			return fmt.Sprintf("%d response HEADERS did not all reach the client within %v", n, x.bound)
		}
	}
	return ""
}

func (x *session) done(e *h2kit.Endpoint) bool {
	d := false
	e.With(func(r *h2kit.Rec) { d = r.Done })
	return d
}

func (x *session) diag() string {
	d := func(e *h2kit.Endpoint) string {
		var out string
		e.With(func(rec *h2kit.Rec) {
			out = fmt.Sprintf("%s{frames=%d done=%v err=%v}", e.Name, rec.Frames, rec.Done, rec.ReadErr)
		})
		return out
	}
	ret, err := x.s.ProxyReturned(0)
	return fmt.Sprintf(" [%s %s proxyReturned=%v err=%v]", d(x.s.Client), d(x.s.Server), ret, err)
}

// headRemainder is what is left of the first accepted DATA frame of a stream
// that has not been delivered completely; 0 if nothing is undelivered.
func headRemainder(frames []int, delivered int) int {
	cum := 0
	for _, n := range frames {
		cum += n
		if cum > delivered {
			return cum - delivered
		}
	}
	return 0
}

// stranded lists streams whose next undelivered frame fits both the stream
// credit and the connection credit the receiver has granted.
func (x *session) stranded() []string {
	var out []string
	for i, id := range x.ids {
		if x.reset[i] {
			continue
		}
		var delivered int
		x.R.With(func(r *h2kit.Rec) { delivered = r.DataBytes[id] })
		h := headRemainder(x.accepted[i], delivered)
		if h == 0 {
			continue
		}
		conn, str := x.R.Credit(id)
		if int64(h) <= conn && int64(h) <= str {
			out = append(out, fmt.Sprintf("stream %d: %d of %d octets delivered, next frame needs %d, stream credit %d, connection credit %d", id, delivered, x.total[i], h, str, conn))
		}
	}
	return out
}

// undelivered reports whether the relay has accepted data it has not delivered yet.
func (x *session) undelivered() bool {
	for i, id := range x.ids {
		// (streams the receiver has reset included: the relay may still hold their data)
		var got int
		x.R.With(func(r *h2kit.Rec) { got = r.DataBytes[id] })
		if got < x.total[i] {
			return true
		}
	}
	return false
}

func shapeOf(c Case, upto int) string {
	// the shape of a history for signatures: what kinds of steps it contained
	if upto < len(c.Ops) {
		upto++ // including the step just executed
	}
	l := labels(Case{Reverse: c.Reverse, Lazy: c.Lazy, Streams: c.Streams, Ops: c.Ops[:upto]})
	switch {
	case l["stream-grant-then-connection-grant"]:
		return "after-stream-grant-then-connection-grant"
	case l["receiver-sent-goaway"]:
		return "after-the-receivers-goaway"
	case l["connection-window-at-its-maximum"]:
		return "after-connection-window-at-its-maximum"
	case l["many-other-streams-while-a-stream-has-window-state"]:
		return "after-hundreds-of-other-streams"
	case l["more-than-15-frames-released-at-once"]:
		return "after-more-than-15-frames-released-at-once"
	case l["repeated-settings-identifier"]:
		return "after-repeated-settings-identifier"
	case l["grant-before-first-frame"]:
		return "after-grant-before-first-frame"
	case l["window-lowered"]:
		return "after-initial-window-lowered"
	case l["settings-change-with-data-queued"]:
		return "after-settings-change-with-data-queued"
	case l["connection-window-update"]:
		return "after-connection-window-update"
	}
	return "stream-window-updates-only"
}

// check applies the oracle after a step. step is the index of the op (len(ops)
// for the final drain).
func (x *session) check(step int, what string) {
	// safety: never beyond what the receiver granted, never above its frame size
	var viol []h2kit.Violation
	x.R.With(func(r *h2kit.Rec) { viol = append(viol, r.Violations...); r.Violations = nil })
	for _, v := range viol {
		x.fail(false, "C09/overrun/"+shapeOf(x.c, step)+"/"+v.Kind, "after step %d (%s): %s", step, what, v.Detail)
	}
	// credit: exactly the flow-controlled length of what the relay accepted
	if x.creditOK {
		got := map[uint32]int64{}
		x.S.With(func(r *h2kit.Rec) {
			for id, n := range r.WU {
				got[id] = int64(n)
			}
		})
		ids := []uint32{0}
		ids = append(ids, x.ids...)
		for _, id := range ids {
			if got[id] == x.wantWU[id] || (id != 0 && got[id] >= x.wantWU[id]-x.optWU[id] && got[id] <= x.wantWU[id]) {
				continue
			}
			x.creditOK = false
			where := "stream"
			if id == 0 {
				where = "connection"
			}
			padded, padOnly := false, false
			for _, op := range x.c.Ops[:min(step+1, len(x.c.Ops))] {
				if op.K == "send" && op.Pad >= 0 {
					padded = true
					if op.N == 0 {
						padOnly = true
					}
				}
			}
			shape := "unpadded-data"
			for _, op := range x.c.Ops[:min(step+1, len(x.c.Ops))] {
				if op.K == "send" && op.End && flowLen(op) > 0 {
					shape = "data-with-end-stream"
				}
			}
			if padded {
				shape = "padded-data"
			}
			if step < len(x.c.Ops) && x.c.Ops[step].K == "send" && x.reset[x.c.Ops[step].S] {
				shape = "data-after-reset"
			} else if step < len(x.c.Ops) && x.c.Ops[step].K == "send" && x.c.Ops[step].End && flowLen(x.c.Ops[step]) > 0 {
				shape = "data-with-end-stream" // the frame just sent is the one short of credit
			}
			_ = padOnly
			class := "credit-short"
			if got[id] > x.wantWU[id] {
				class = "credit-excess"
			}
			x.fail(false, "C09/credit/"+shape+"/"+class, "after step %d (%s): the sender was returned %d octets of %s credit (stream %d) for %d flow-controlled octets accepted", step, what, got[id], where, id, x.wantWU[id])
			break
		}
	}
	// no stranding
	if st := x.stranded(); len(st) > 0 {
		deadline := time.Now().Add(x.bound)
		for len(st) > 0 && time.Now().Before(deadline) {
			time.Sleep(5 * time.Millisecond)
			st = x.stranded()
		}
		if len(st) > 0 {
			x.gaveUp = true // later steps would only wait for the same data again
			x.fail(true, "C09/stranding/"+shapeOf(x.c, step)+"/data-held-despite-credit", "after step %d (%s), %v without further input: %s", step, what, x.bound, st[0])
		}
	}
}

func runOnce(c Case, bound time.Duration) (kit.Verdict, bool) {
	s, err := h2kit.Open(h2kit.Options{Factories: h2kit.Factories(c.Procs), Bound: bound})
	if err != nil {
		return kit.Failf("C09/session/setup/relay-did-not-connect", "%v", err), true
	}
	defer s.Teardown(bound)
	x := &session{c: c, s: s, bound: bound, wantWU: map[uint32]int64{}, optWU: map[uint32]int64{}, reset: make([]bool, c.Streams), creditOK: true}
	x.S, x.R = s.Client, s.Server
	if c.Reverse {
		x.S, x.R = s.Server, s.Client
	}
	s.Client.WritePreface()
	s.Client.WriteSettings()
	s.Server.WriteSettings()
	ok := s.Server.Wait(bound, func(r *h2kit.Rec) bool { return (r.PrefaceOK && len(r.Settings) >= 1 && r.Acks >= 1) || r.Done }) &&
		s.Client.Wait(bound, func(r *h2kit.Rec) bool { return (len(r.Settings) >= 1 && r.Acks >= 1) || r.Done })
	if !ok || x.done(s.Client) || x.done(s.Server) {
		return kit.Failf("C09/session/setup/settings-exchange-incomplete", "preface and SETTINGS exchange did not complete within %v%s", bound, x.diag()), true
	}
	x.S.SetAutoAck(false)

	// open the streams: the client asks, the server answers (needed when it sends)
	x.accepted = make([][]int, c.Streams)
	x.total = make([]int, c.Streams)
	for i := 0; i < c.Streams; i++ {
		id := uint32(2*i + 1)
		x.ids = append(x.ids, id)
		s.Client.WriteHeaders(h2kit.HeadersSpec{Stream: id, Pad: -1, Fields: []h2kit.Field{{N: ":method", V: "POST"}, {N: ":scheme", V: "https"}, {N: ":path", V: "/"}, {N: ":authority", V: "example.com"}}})
	}
	answered := make([]bool, c.Streams)
	if c.Reverse {
		last := x.ids[len(x.ids)-1]
		if !s.Server.Wait(bound, func(r *h2kit.Rec) bool { return len(r.Streams[last]) > 0 || r.Done }) {
			return kit.Failf("C09/session/setup/streams-not-opened", "request HEADERS did not reach the server within %v%s", bound, x.diag()), true
		}
		for i, id := range x.ids {
			if !c.Lazy {
				s.Server.WriteHeaders(h2kit.HeadersSpec{Stream: id, Pad: -1, Fields: []h2kit.Field{{N: ":status", V: "200"}}})
				answered[i] = true
			}
		}
	}
	if !x.settle(nil) {
		return x.v, x.slow
	}

	for i, op := range c.Ops {
		var between func()
		switch op.K {
		case "send":
			id := x.ids[op.S]
			if c.Reverse && !answered[op.S] {
				s.Server.WriteHeaders(h2kit.HeadersSpec{Stream: id, Pad: -1, Fields: []h2kit.Field{{N: ":status", V: "200"}}})
				answered[op.S] = true
			}
			for k := 0; k < op.count(); k++ {
				n, err := x.S.WriteData(id, kit.Bytes(uint64(i), op.N), op.Pad, op.End && k == op.count()-1)
				if err != nil {
					x.fail(false, "C09/session/sender/connection-lost", "step %d: writing DATA: %v%s", i, err, x.diag())
					return x.v, x.slow
				}
				x.total[op.S] += op.N
				if !x.reset[op.S] {
					x.accepted[op.S] = append(x.accepted[op.S], op.N)
				}
				if n > 0 {
					x.wantWU[id] += int64(n)
					x.wantWU[0] += int64(n)
					if x.reset[op.S] {
						x.optWU[id] += int64(n)
					}
				}
			}
		case "churn":
			if msg := x.churn(op.N); msg != "" {
				x.fail(true, "C09/session/many-streams/short-streams-not-relayed", "step %d: %s%s", i, msg, x.diag())
				return x.v, x.slow
			}
		case "rst":
			x.R.WriteRST(x.ids[op.S], 8)
			x.reset[op.S] = true
			x.accepted[op.S] = nil // nothing on this stream has to be delivered any more
		case "goaway":
			last := uint32(0) // a client has seen no pushed stream
			if !c.Reverse {
				last = x.ids[len(x.ids)-1]
				if x.nextID > 0 {
					last = x.nextID - 2
				}
			}
			x.R.WriteGoAway(last, 0, nil)
		case "wu":
			id := uint32(0)
			if op.S >= 0 {
				id = x.ids[op.S]
			}
			n := int64(op.N)
			if op.S < 0 {
				// never beyond 2^31-1 (RFC 7540 6.9.1), judged by what has really arrived
				conn, _ := x.R.Credit(0)
				if room := int64(1<<31-1) - conn; n < 0 || n > room {
					n = room
				}
			}
			if n > 0 {
				x.R.WriteWindowUpdate(id, uint32(n))
			}
		case "iws":
			// The repeated form only while the relay holds no data of this session: an
			// intermediate value that lets queued frames go before the last value takes
			// effect is a grey area the check does not judge.
			if op.Rep && !x.undelivered() {
				x.R.WriteSettings(h2kit.Setting{ID: 4, Val: uint32(op.First)}, h2kit.Setting{ID: 4, Val: uint32(op.N)})
			} else {
				x.R.WriteSettings(h2kit.Setting{ID: 4, Val: uint32(op.N)})
			}
			if op.Ack {
				between = func() { x.S.AckSettings() }
			}
		case "maxframe":
			x.R.WriteSettings(h2kit.Setting{ID: 5, Val: uint32(op.N)})
			if op.Ack {
				between = func() { x.S.AckSettings() }
			}
		case "ack":
			x.S.AckSettings()
		}
		if !x.settle(between) {
			return x.v, x.slow
		}
		x.check(i, fmt.Sprintf("%s s=%d n=%d pad=%d end=%v rep=%v first=%d cnt=%d", op.K, op.S, op.N, op.Pad, op.End, op.Rep, op.First, op.Cnt))
		if x.gaveUp {
			return x.v, x.slow
		}
	}

	// final drain: with ample credit everything accepted must come out
	x.S.AckSettings()
	if conn, _ := x.R.Credit(0); conn < 1<<24 {
		x.R.WriteWindowUpdate(0, 1<<24)
	}
	for _, id := range x.ids {
		x.R.WriteWindowUpdate(id, 1<<24)
	}
	// a lowered initial window can leave a stream below zero by up to 1 MiB + 64 KiB
	x.R.WriteSettings(h2kit.Setting{ID: 4, Val: 1 << 21})
	if !x.settle(func() { x.S.AckSettings() }) {
		return x.v, x.slow
	}
	x.check(len(c.Ops), "final drain")
	for i, id := range x.ids {
		var got int
		x.R.With(func(r *h2kit.Rec) { got = r.DataBytes[id] })
		if got > x.total[i] {
			x.fail(false, "C09/delivery/any/more-data-than-sent", "stream %d: %d octets sent, %d delivered", id, x.total[i], got)
		}
	}
	return x.v, x.slow
}

var patience h2kit.Patience

func run(c Case) kit.Verdict {
	h2kit.ShortShrink()
	bound, revalidate := patience.Bound()
	v, slow := runOnce(c, bound)
	if !slow {
		return v
	}
	if !revalidate {
		patience.Spent(bound)
		return v
	}
	v2, slow2 := runOnce(c, 3*bound)
	if !slow2 {
		kit.Inconclusive("histories")
	} else if len(v2) > 0 {
		patience.Confirm()
	}
	return v2
}

var propHistories = &kit.Prop[Case]{
	ID: "C09", Name: "histories",
	Rule: "flow-control histories on one relay session, either direction: DATA sends (sizes up to what the sender may assume, padded or not) on 1..4 streams interleaved with the receiver's SETTINGS_INITIAL_WINDOW_SIZE / MAX_FRAME_SIZE changes (processed by the sender at once or later) and stream/connection WINDOW_UPDATEs (1 octet .. 1 MiB); after every step the relay is flushed with barrier frames and the receiver's ledger (never beyond granted credit, never above its frame size), the sender's credit (exactly the flow-controlled length) and frame-granular no-stranding are checked; non-trivial = a window reaches 0, a SETTINGS change with data queued, a padded frame, or a 1-octet increment",
	Gen:  genCase, Run: run, NonTrivial: nontrivial, Classes: classes,
	Gates: map[string]float64{"data-after-reset": 0.1, "repeated-settings-identifier": 0.1, "grant-before-first-frame": 0.1, "end-stream-with-payload": 0.15, "window-reaches-zero": 0.15, "padded-data": 0.15, "one-byte-increment": 0.15, "settings-change-with-data-queued": 0.10, "data-queued": 0.3},
}

func TestHistories(t *testing.T) {
	n := kit.N(1200, 12000)
	if kit.Race() {
		n = 100
	}
	propHistories.Check(t, n)
}

// propEarlyGrant: the receiver grants stream credit before the relay has forwarded
// anything on that stream toward it, then exactly that much more than the initial
// window is sent.
var propEarlyGrant = &kit.Prop[Case]{
	ID: "C09", Name: "early-grant",
	Rule: "ALL combinations of: the client grants g in {1,100,16384,1 MiB} octets on a stream right after opening it (before the server has answered it; connection credit before or after), the server then answers and sends 65 535 + min(g,16384) octets on it, the last frame with or without END_STREAM, on the only stream or the second of two; oracle as for histories (ledger, exact credit, no stranding after every step); non-trivial = every case",
	Run:  run, Classes: classes,
}

func TestEarlyGrant(t *testing.T) {
	if kit.Race() {
		t.Skip("sequential enumeration")
	}
	propEarlyGrant.Enumerate(t, func(yield func(Case) bool) {
		for _, g := range []int{1, 100, 16384, 1 << 20} {
			for _, connFirst := range []bool{false, true} {
				for _, end := range []bool{false, true} {
					for _, streams := range []int{1, 2} {
						st := streams - 1
						grant := []Op{{K: "wu", Pad: -1, S: st, N: g}, {K: "wu", Pad: -1, S: -1, N: 1 << 20}}
						if connFirst {
							grant[0], grant[1] = grant[1], grant[0]
						}
						last := g
						if last > 16384 {
							last = 16384
						}
						ops := append(grant,
							Op{K: "send", Pad: -1, S: st, N: 16384}, Op{K: "send", Pad: -1, S: st, N: 16384},
							Op{K: "send", Pad: -1, S: st, N: 16384}, Op{K: "send", Pad: -1, S: st, N: 16383},
							Op{K: "send", Pad: -1, S: st, N: last, End: end})
						if !yield(Case{Reverse: true, Lazy: true, Streams: streams, Ops: ops}) {
							return
						}
					}
				}
			}
		}
	})
}

// propBurst: many frames become eligible in one step.
var propBurst = &kit.Prop[Case]{
	ID: "C09", Name: "burst-release",
	Rule: "ALL combinations of: the receiver announces a zero initial window which the sender has not processed; the sender writes 16 / 50 / 200 DATA frames of 10 octets on one stream (all held by the relay); one step then makes all of them eligible - a stream WINDOW_UPDATE covering everything, or SETTINGS_INITIAL_WINDOW_SIZE=65 535 - either direction; oracle as for histories: with no further input everything must arrive; non-trivial = every case",
	Run:  run, Classes: classes,
}

func TestBurstRelease(t *testing.T) {
	if kit.Race() {
		t.Skip("sequential enumeration")
	}
	propBurst.Enumerate(t, func(yield func(Case) bool) {
		for _, cnt := range []int{16, 50, 200} {
			for _, bySettings := range []bool{false, true} {
				for _, rev := range []bool{false, true} {
					release := Op{K: "wu", Pad: -1, S: 0, N: cnt * 10}
					if bySettings {
						release = Op{K: "iws", Pad: -1, N: 65535, Ack: true}
					}
					ops := []Op{{K: "iws", Pad: -1, N: 0}, {K: "send", Pad: -1, S: 0, N: 10, Cnt: cnt}, release}
					if !yield(Case{Reverse: rev, Streams: 1, Ops: ops}) {
						return
					}
				}
			}
		}
	})
}

// propManyIDs: the window state of an open stream must survive hundreds of other streams.
var propManyIDs = &kit.Prop[Case]{
	ID: "C09", Name: "many-stream-ids",
	Rule: "ALL combinations of: a stream consumes 49 152 octets of its 65 535-octet window (or is granted 20 000 octets before its first frame); 260 / 600 short streams then come and go; connection credit is ample; 16 384 more octets are sent on the old stream (the first is held by its stream window, the second is covered by the early grant), then 1 octet of stream credit; either direction; oracle as for histories; non-trivial = every case",
	Run:  run, Classes: classes,
}

func TestManyStreamIDs(t *testing.T) {
	if kit.Race() {
		t.Skip("sequential enumeration")
	}
	propManyIDs.Enumerate(t, func(yield func(Case) bool) {
		for _, n := range []int{260, 600} {
			if n == 600 && !kit.Thorough() {
				continue
			}
			for _, rev := range []bool{false, true} {
				used := []Op{{K: "send", Pad: -1, N: 16384}, {K: "send", Pad: -1, N: 16384}, {K: "send", Pad: -1, N: 16384},
					{K: "churn", Pad: -1, N: n}, {K: "wu", Pad: -1, S: -1, N: 1 << 20},
					{K: "send", Pad: -1, N: 16384}, {K: "wu", Pad: -1, S: 0, N: 1}}
				if !yield(Case{Reverse: rev, Streams: 1, Ops: used}) {
					return
				}
				if rev {
					granted := []Op{{K: "wu", Pad: -1, S: 0, N: 20000}, {K: "wu", Pad: -1, S: -1, N: 1 << 20}, {K: "churn", Pad: -1, N: n},
						{K: "send", Pad: -1, N: 16384}, {K: "send", Pad: -1, N: 16384}, {K: "send", Pad: -1, N: 16384}, {K: "send", Pad: -1, N: 16384}, {K: "send", Pad: -1, N: 16384}}
					if !yield(Case{Reverse: true, Lazy: true, Streams: 1, Ops: granted}) {
						return
					}
				}
			}
		}
	})
}

// propBothWindows: a stream that lacks room in its own window and in the connection's gets
// both, in either order.
var propBothWindows = &kit.Prop[Case]{
	ID: "C09", Name: "both-windows",
	Rule: "ALL combinations of: a stream uses up its own window and the connection's at the same time (65 535 octets delivered) and holds 1 / 16 385 more octets - on the only stream, or on the second of two while the first has data waiting for the connection window as well -; the receiver then grants stream credit and connection credit, in either order, exactly what is lacking or plenty, and nothing else; either direction; oracle as for histories; non-trivial = every case",
	Run:  run, Classes: classes,
}

func TestBothWindows(t *testing.T) {
	if kit.Race() {
		t.Skip("sequential enumeration")
	}
	propBothWindows.Enumerate(t, func(yield func(Case) bool) {
		for _, rev := range []bool{false, true} {
			for _, extra := range []int{0, 16384} {
				for _, streamFirst := range []bool{true, false} {
					for _, plenty := range []bool{false, true} {
						for _, streams := range []int{1, 2} {
							held := 1 + extra
							st := streams - 1
							ops := []Op{{K: "send", Pad: -1, S: st, N: 16384}, {K: "send", Pad: -1, S: st, N: 16384}, {K: "send", Pad: -1, S: st, N: 16384}, {K: "send", Pad: -1, S: st, N: 16384}}
							if extra > 0 {
								ops = append(ops, Op{K: "send", Pad: -1, S: st, N: extra})
							}
							if streams == 2 {
								ops = append(ops, Op{K: "send", Pad: -1, S: 0, N: 1000}) // waits for the connection window only
							}
							sw, cw := held, held
							if streams == 2 {
								cw += 1000
							}
							if plenty {
								sw, cw = 1<<20, 1<<20
							}
							grants := []Op{{K: "wu", Pad: -1, S: st, N: sw}, {K: "wu", Pad: -1, S: -1, N: cw}}
							if !streamFirst {
								grants[0], grants[1] = grants[1], grants[0]
							}
							if !yield(Case{Reverse: rev, Streams: streams, Ops: append(ops, grants...)}) {
								return
							}
						}
					}
				}
			}
		}
	})
}

func TestReplay(t *testing.T) {
	kit.Replay(t, propGRPC, propBothWindows, propHistories, propFrameSize, propEarlyGrant, propBurst, propFit, propManyIDs)
}
