package c09

import (
	"bytes"
	"encoding/binary"
	"testing"
	"time"

	"verifharness/internal/kit"
	"verifharness/props/h2kit"

	"github.com/google/martian/v3/h2"
)

// GRPCCase: a gRPC stream (content-type application/grpc) through a relay configured with
// the library's gRPC adapter around pass-through processors. The body is a sequence of
// length-prefixed messages of Sizes octets; the sender cuts it into DATA frames at Cuts
// (offsets into the body), for instance inside a message's 5-octet prefix. The relay
// accepts every frame and returns its credit; with the receiver's windows wide open all
// of it (re-framed message by message) must come out without further input.
type GRPCCase struct {
	Reverse bool  `json:"reverse,omitempty"`
	Sizes   []int `json:"sizes"`
	Cuts    []int `json:"cuts"`
}

func grpcBody(sizes []int) []byte {
	var b []byte
	for i, n := range sizes {
		var p [5]byte
		binary.BigEndian.PutUint32(p[1:], uint32(n))
		b = append(b, p[:]...)
		b = append(b, kit.Bytes(uint64(i+1), n)...)
	}
	return b
}

func runGRPCOnce(c GRPCCase, bound time.Duration) (v kit.Verdict, slow bool) {
	s, err := h2kit.Open(h2kit.Options{Bound: bound, Factories: []h2.StreamProcessorFactory{h2kit.GRPCFactory()}})
	if err != nil {
		return kit.Failf("C09/session/setup/relay-did-not-connect", "%v", err), true
	}
	defer s.Teardown(bound)
	S, R := s.Client, s.Server
	if c.Reverse {
		S, R = s.Server, s.Client
	}
	s.Client.WritePreface()
	R.WriteSettings(h2kit.Setting{ID: 4, Val: 1 << 24})
	S.WriteSettings()
	R.WriteWindowUpdate(0, 1<<24)
	if !S.Wait(bound, func(r *h2kit.Rec) bool { return (len(r.Settings) >= 1 && r.Acks >= 1) || r.Done }) ||
		!R.Wait(bound, func(r *h2kit.Rec) bool { return (len(r.Settings) >= 1 && r.Acks >= 1) || r.Done }) {
		return kit.Failf("C09/session/setup/settings-exchange-incomplete", "SETTINGS exchange did not complete within %v", bound), true
	}
	s.Client.WriteHeaders(h2kit.HeadersSpec{Stream: 1, Pad: -1, Fields: []h2kit.Field{{N: ":method", V: "POST"}, {N: ":scheme", V: "https"}, {N: ":path", V: "/svc/Method"}, {N: ":authority", V: "example.com"}, {N: "content-type", V: "application/grpc"}, {N: "te", V: "trailers"}}})
	if !s.Server.Wait(bound, func(r *h2kit.Rec) bool { return len(r.Streams[1]) > 0 || r.Done }) {
		return kit.Failf("C09/session/setup/streams-not-opened", "request HEADERS did not reach the server within %v", bound), true
	}
	if c.Reverse {
		S.WriteHeaders(h2kit.HeadersSpec{Stream: 1, Pad: -1, Fields: []h2kit.Field{{N: ":status", V: "200"}, {N: "content-type", V: "application/grpc"}}})
	}
	body := grpcBody(c.Sizes)
	last, sent := 0, int64(0)
	cuts := append(append([]int(nil), c.Cuts...), len(body))
	for i, cut := range cuts {
		if cut <= last || cut > len(body) {
			continue
		}
		// (the sender stays inside its windows: the relay returns what it accepts)
		need := sent + int64(cut-last)
		if !S.Wait(bound, func(r *h2kit.Rec) bool {
			return r.Done || (65535+int64(r.WU[0]) >= need && 65535+int64(r.WU[1]) >= need)
		}) {
			return kit.Failf("C09/credit/grpc-stream/credit-short", "the relay returned no credit for %d octets within %v", sent, bound), true
		}
		S.WriteData(1, body[last:cut], -1, i == len(cuts)-1)
		sent, last = need, cut
	}
	complete := func(r *h2kit.Rec) bool {
		evs := r.Streams[1]
		return r.DataBytes[1] >= len(body) && len(evs) > 0 && evs[len(evs)-1].End
	}
	if !R.Wait(bound, func(r *h2kit.Rec) bool { return complete(r) || r.Done }) {
		slow = true
	}
	var got []byte
	ended := false
	R.With(func(r *h2kit.Rec) {
		for _, ev := range r.Streams[1] {
			if ev.Kind == "D" {
				got = append(got, ev.Data...)
				ended = ended || ev.End
			}
		}
	})
	var wu0 uint64
	S.With(func(r *h2kit.Rec) { wu0 = r.WU[0] })
	if len(got) < len(body) || !ended {
		v.Addf("C09/stranding/grpc-stream-frame-boundary-inside-a-message-prefix/data-held-despite-credit", "%d messages (%v octets) sent as a gRPC body of %d octets in DATA frames cut at %v; the relay returned %d octets of connection credit; with the receiver's windows wide open %d octets arrived (END_STREAM %v) within %v", len(c.Sizes), c.Sizes, len(body), c.Cuts, wu0, len(got), ended, bound)
	} else if !bytes.Equal(got, body) {
		v.Addf("C09/delivery/grpc-stream/bytes-differ", "%s", kit.Diff(body, got))
		slow = false
	} else {
		slow = false
	}
	return v, slow
}

var grpcPatience h2kit.Patience

func runGRPC(c GRPCCase) kit.Verdict {
	bound, revalidate := grpcPatience.Bound()
	v, slow := runGRPCOnce(c, bound)
	if !slow {
		return v
	}
	if !revalidate {
		grpcPatience.Spent(bound)
		return v
	}
	v2, slow2 := runGRPCOnce(c, 3*bound)
	if !slow2 {
		kit.Inconclusive("grpc-streams")
	} else if len(v2) > 0 {
		grpcPatience.Confirm()
	}
	return v2
}

var propGRPC = &kit.Prop[GRPCCase]{
	ID: "C09", Name: "grpc-streams",
	Rule: "ALL bodies of two or three gRPC messages (0 / 1 / 7 / 300 octets) sent through the library's gRPC adapter with pass-through processors, the DATA frames cut at every offset inside and around the second message's 5-octet prefix, either direction; the relay returns the credit for every frame, the receiver's windows are wide open: everything must arrive, byte for byte, with END_STREAM; non-trivial = every case",
	Run:  runGRPC,
	Classes: func(c GRPCCase) []string {
		if c.Reverse {
			return []string{"server-sends"}
		}
		return nil
	},
}

func TestGRPCStreams(t *testing.T) {
	if kit.Race() {
		t.Skip("sequential enumeration")
	}
	propGRPC.Enumerate(t, func(yield func(GRPCCase) bool) {
		for _, rev := range []bool{false, true} {
			for _, sizes := range [][]int{{7, 300}, {0, 1, 7}, {300, 0, 300}} {
				first := 5 + sizes[0]
				for d := -1; d <= 6; d++ {
					if !yield(GRPCCase{Reverse: rev, Sizes: sizes, Cuts: []int{first + d}}) {
						return
					}
				}
				// one octet at a time across the second prefix
				if !yield(GRPCCase{Reverse: rev, Sizes: sizes, Cuts: []int{first + 1, first + 2, first + 3, first + 4, first + 5}}) {
					return
				}
			}
		}
	})
}
