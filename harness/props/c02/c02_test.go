// Package c02 decides property C02: each exchange runs request then response
// modifiers exactly once with one context.
package c02

import (
	"bufio"
	"bytes"
	"crypto/tls"
	"crypto/x509"
	"fmt"
	"io"
	"net"
	"net/http"
	"net/url"
	"strings"
	"sync"
	"sync/atomic"
	"testing"
	"time"

	"github.com/google/martian/v3"
	"github.com/google/martian/v3/fifo"
	"github.com/google/martian/v3/h2"
	"github.com/google/martian/v3/mitm"
	"github.com/google/martian/v3/trafficshape"
	"pgregory.net/rapid"

	"verifharness/internal/kit"
	"verifharness/internal/netkit"
)

func TestMain(m *testing.M) { kit.Main(m, "C02") }

// Conn is the script of one client connection.
type Conn struct {
	Mode        string   `json:"mode"`                  // plain | blind | mitm | mitm-plain (MITM configured, plain HTTP sent through the tunnel)
	ConnectBeh  string   `json:"connect_beh,omitempty"` // behaviour on the CONNECT itself
	Unreachable bool     `json:"unreachable,omitempty"` // blind: the target cannot be dialled
	Inner       []string `json:"inner"`                 // behaviours of the (inner) requests
	// Schemes (plain connections; parallel to Inner, "" = http): the scheme of the
	// absolute-form target: "https" (the client's choice of origin), "HTTP", or one
	// nobody can forward (ftp, ws, gopher, hxxp). Whatever the target says, the
	// request was read by the proxy: both modifiers run once, a skipped round
	// trip is a 200, and only a modifier (mutate rewrites such a scheme to http, as
	// martianurl.Modifier would) makes an origin reachable.
	Schemes []string `json:"schemes,omitempty"`
	// Ctx (parallel to Inner) / ConnectCtx: the context calls the request side
	// makes for the exchange, in order: "skip" (SkipRoundTrip; present exactly when
	// the behaviour is a skipped round trip), "api" (APIRequest), "log"
	// (SkipLogging), comma-separated; with Case.Fifo a "|" element marks where the
	// first modifier of the group stops and the second takes over. After every
	// call all three flags are read back. Absent: "skip" for a skipping behaviour.
	Ctx        []string `json:"ctx,omitempty"`
	ConnectCtx string   `json:"connect_ctx,omitempty"`
}

func (cn Conn) ctxCalls(i int, beh string) string {
	s := ""
	if i < 0 {
		s = cn.ConnectCtx
	} else if i < len(cn.Ctx) {
		s = cn.Ctx[i]
	}
	if s == "" && (beh == bSkip || beh == bSkipNoHost) {
		s = "skip"
	}
	return s
}

// ctxFlagsAfter is the flag set "skip,api,log" (sorted as written here) that
// holds after the calls in seq.
func ctxFlagsAfter(seq []string) string {
	var out []string
	for _, f := range []string{"skip", "api", "log"} {
		for _, t := range seq {
			if t == f {
				out = append(out, f)
				break
			}
		}
	}
	return strings.Join(out, ",")
}

func ctxFlagsRead(ctx *martian.Context) string {
	var out []string
	if ctx.SkippingRoundTrip() {
		out = append(out, "skip")
	}
	if ctx.IsAPIRequest() {
		out = append(out, "api")
	}
	if ctx.SkippingLogging() {
		out = append(out, "log")
	}
	return strings.Join(out, ",")
}

// ctxApply makes the calls seq[from:to] on ctx, reading the flags back after
// each (and once before the first), and returns the first disagreement between
// what was read and the calls made so far.
func ctxApply(ctx *martian.Context, seq []string, from, to int) string {
	check := func(n int, when string) string {
		if want, got := ctxFlagsAfter(seq[:n]), ctxFlagsRead(ctx); want != got {
			return fmt.Sprintf("%s the context reads {%s}, the calls made so far are {%s}", when, got, want)
		}
		return ""
	}
	if m := check(from, "before its calls"); m != "" {
		return m
	}
	for i := from; i < to; i++ {
		switch seq[i] {
		case "skip":
			ctx.SkipRoundTrip()
		case "api":
			ctx.APIRequest()
		case "log":
			ctx.SkipLogging()
		}
		if m := check(i+1, "after call "+strings.Join(seq[:i+1], ",")); m != "" {
			return m
		}
	}
	return ""
}

// ctxSeq splits the header value: the calls in order and the index at which
// the second modifier of a group takes over.
func ctxSeq(h string) (seq []string, split int) {
	split = -1
	for _, t := range strings.Split(h, ",") {
		switch t {
		case "|":
			split = len(seq)
		case "skip", "api", "log":
			seq = append(seq, t)
		}
	}
	if split < 0 {
		split = 0
	}
	return seq, split
}

// ctxPre is the first member of the request modifier group of a Fifo case: it
// makes the calls in front of the "|".
type ctxPre struct{ p *probe }

func (m ctxPre) ModifyRequest(req *http.Request) error {
	ctx := martian.NewContext(req)
	if ctx == nil {
		return nil
	}
	seq, split := ctxSeq(req.Header.Get("X-Verif-Ctx"))
	if msg := ctxApply(ctx, seq, 0, split); msg != "" {
		m.p.mu.Lock()
		m.p.flagErr[req.Header.Get("X-Verif-Id")] = "first modifier of the group: " + msg
		m.p.mu.Unlock()
	}
	return nil
}

func (cn Conn) scheme(i int) string {
	if i < len(cn.Schemes) {
		return cn.Schemes[i]
	}
	return ""
}

// otherScheme: no transport can carry a request with this target scheme.
func otherScheme(s string) bool { return s != "" && s != "https" && s != "HTTP" }

// Case is 1..3 connections served by one proxy.
type Case struct {
	Conns []Conn `json:"conns"`
	// CloneRT: the proxy's RoundTripper hands the transport a clone of the
	// request (as context-propagating middleware does), so the response the
	// transport returns points at the clone.
	CloneRT bool `json:"clone_rt,omitempty"`
	// MultilineErrors: modifier errors carry a newline, quotes and a backslash
	// (as an aggregated MultiError does); they must still travel in a Warning header.
	MultilineErrors bool `json:"multiline_errors,omitempty"`
	// ErrValue: which error VALUE the failing modifiers return: "" = a fresh
	// error carrying the exchange id; "eof" = io.EOF itself (json.Decoder on an
	// empty body); "closed-pipe" = io.ErrClosedPipe; "timeout" = a net.Error whose
	// Timeout() is true (a modifier's own lookup timed out). Whatever its value,
	// a modifier error is a Warning header, never the end of the exchange.
	ErrValue string `json:"err_value,omitempty"`
	// Body: the inner requests are POSTs with a body: "cl" (300 bytes), "cl-large"
	// (10 000 bytes), "chunked", or "cl-request-shaped" (the body reads like a
	// complete GET request). Whoever ends the exchange - origin, skipped round
	// trip, failed dial - the body belongs to it and to no later exchange.
	Body string `json:"body,omitempty"`
	// PartialOnHijack: of a request on which the request modifier hijacks only
	// the head and the first three body bytes are on the wire when it does.
	PartialOnHijack bool `json:"partial_on_hijack,omitempty"`
	// Downstream: blind CONNECTs go through a downstream proxy; "credentials"
	// configures it with user:password in its URL.
	Downstream string `json:"downstream,omitempty"`
	// Shaped: the proxy is served on a trafficshape.Listener without shapes.
	Shaped bool `json:"shaped,omitempty"`
	// HijackReads: a hijacker that announces itself (every one outside TLS) goes
	// on to READ what the client sends once it has seen the announcement - from
	// the net.Conn ("conn") or from the bufio.ReadWriter ("brw") it was handed -
	// and acknowledges it. The client sends a token and ends its sending side:
	// TCP delivers in order, so a hijacker that sees end-of-stream without the
	// token has proof that somebody else read from the connection after the
	// hijack.
	HijackReads string `json:"hijack_reads,omitempty"`
	// EarlyAnswer: the origin answers a request that has a body as soon as it has
	// the head (a 401/413-style answer) and only then takes the body, so the
	// response modifier runs while the body is still in transit. Together with
	// PartialOnHijack only the head and three body bytes of a request on which the
	// RESPONSE modifier hijacks are on the wire when it does.
	EarlyAnswer bool `json:"early_answer,omitempty"`
	// Fifo: the proxy's request modifier is a fifo.Group of two: the first member
	// makes the context calls in front of the "|" of Conn.Ctx, the probe the rest.
	Fifo bool `json:"fifo,omitempty"`
	// MITMConf: which mitm.Config the MITM cases run with: "" (no HTTP/2
	// configuration), "h2-refusing-filter" (SetH2Config with a filter that admits
	// no host), "h2-no-filter" (SetH2Config with an h2.Config that has no filter:
	// HTTP/2 prepared, switched on for no host). With none of them is HTTP/2
	// allowed for any host: every decrypted request is the modifiers'.
	MITMConf string `json:"mitm_conf,omitempty"`
	// ALPN: what the client offers in the TLS handshake inside the tunnel: "",
	// "http/1.1" or "h2,http/1.1".
	ALPN string `json:"alpn,omitempty"`
}

var (
	noFilterOnce sync.Once
	noFilterConf *mitm.Config
	noFilterPool *x509.CertPool
	noFilterErr  error
)

// mitmNoFilter is a process-wide mitm.Config (authority of its own) on which
// SetH2Config was called with an h2.Config without AllowedHostsFilter.
func mitmNoFilter() (*mitm.Config, *x509.CertPool, error) {
	noFilterOnce.Do(func() {
		ca, key, err := mitm.NewAuthority("verif mitm (h2 config without filter)", "Verif Org", 24*time.Hour)
		if err != nil {
			noFilterErr = err
			return
		}
		noFilterPool = x509.NewCertPool()
		noFilterPool.AddCert(ca)
		noFilterConf, noFilterErr = mitm.NewConfig(ca, key)
		if noFilterErr == nil {
			noFilterConf.SetH2Config(&h2.Config{RootCAs: netkit.OriginPool()})
		}
	})
	return noFilterConf, noFilterPool, noFilterErr
}

// hijackToken is what the client sends to a reading hijacker.
func hijackToken(id string) string { return "CLIENT-TO-HIJACKER-" + id + "\n" }

// hijackAck is the reading hijacker's acknowledgement.
func hijackAck(id string) string { return "HIJACKER-GOT-" + id + "\n" }

// dsEntry is one request that reached the downstream proxy.
type dsEntry struct {
	id, host, method string
	seq              int64
}

// connectProxy is a minimal downstream proxy: CONNECT is answered 200 and
// spliced; any other request is forwarded to where route says (one upstream
// connection per request) and its answer relayed. seen is told of every
// request that arrives.
func connectProxy(l net.Listener, route func(host string) string, seen func(dsEntry)) {
	for {
		c, err := l.Accept()
		if err != nil {
			return
		}
		go func() {
			defer c.Close()
			br := bufio.NewReader(c)
			var req *http.Request
			for {
				c.SetReadDeadline(time.Now().Add(90 * time.Second))
				var err error
				req, err = http.ReadRequest(br)
				if err != nil {
					return
				}
				c.SetReadDeadline(time.Time{})
				host := req.Host
				if req.URL.Host != "" {
					host = req.URL.Host
				}
				seen(dsEntry{id: req.Header.Get("X-Verif-Id"), host: host, method: req.Method})
				if req.Method == "CONNECT" {
					break
				}
				to := route(host)
				var t net.Conn
				if to != "" {
					t, err = net.DialTimeout("tcp", to, 5*time.Second)
				}
				if to == "" || err != nil {
					io.Copy(io.Discard, req.Body)
					if _, err := c.Write([]byte("HTTP/1.1 502 Bad Gateway\r\nContent-Length: 0\r\n\r\n")); err != nil {
						return
					}
					continue
				}
				req.Header.Del("Proxy-Authorization")
				req.Header.Del("Proxy-Connection")
				werr := req.Write(t)
				var res *http.Response
				if werr == nil {
					res, werr = http.ReadResponse(bufio.NewReader(t), req)
				}
				if werr != nil {
					t.Close()
					return
				}
				res.Close = false
				werr = res.Write(c)
				t.Close()
				if werr != nil {
					return
				}
			}
			to := route(req.Host)
			if to == "" {
				c.Write([]byte("HTTP/1.1 502 Bad Gateway\r\nContent-Length: 0\r\n\r\n"))
				return
			}
			t, err := net.DialTimeout("tcp", to, 5*time.Second)
			if err != nil {
				c.Write([]byte("HTTP/1.1 502 Bad Gateway\r\nContent-Length: 0\r\n\r\n"))
				return
			}
			defer t.Close()
			c.Write([]byte("HTTP/1.1 200 Connection established\r\n\r\n"))
			done := make(chan struct{}, 2)
			go func() { io.Copy(t, br); t.(*net.TCPConn).CloseWrite(); done <- struct{}{} }()
			go func() { io.Copy(c, t); c.(*net.TCPConn).CloseWrite(); done <- struct{}{} }()
			<-done
			<-done
		}()
	}
}

type cloningRT struct{ next http.RoundTripper }

func (c cloningRT) RoundTrip(req *http.Request) (*http.Response, error) {
	return c.next.RoundTrip(req.Clone(req.Context()))
}

const (
	bPass, bMutate, bReqErr, bResErr, bSkip, bHijReq, bHijRes = "pass", "mutate", "reqerr", "reserr", "skip", "hijack-req", "hijack-res"
	// bDown: the origin of this exchange cannot be dialled: the 502 must pass the response modifier once
	bDown = "origin-down"
	// bSkipNoHost: an HTTP/1.0 request in origin-form without a Host header whose
	// request modifier skips the round trip (a health check answered by the proxy)
	bSkipNoHost = "skip-nohost"
)

type call struct {
	phase   string
	id      string
	beh     string
	req     *http.Request
	ctx     *martian.Context
	ctxID   string
	sess    *martian.Session
	sessID  string
	seq     int64
	status  int
	nilCtx  bool
	method  string
	hijErr  error
	sameReq bool
	warn    string // Warning header of the response (phase res)
	// reading hijackers: what they read after their announcement, and how it ended
	hijRead    bool
	hijGot     []byte
	hijReadErr error
}

type probe struct {
	mu       sync.Mutex
	clock    *int64
	calls    []call
	reqOf    map[string]*http.Request
	mitm     map[string]bool // ids whose hijack must stay silent (TLS inside)
	multi    bool
	stale    [][2]string // (ended exchange, exchange during which its context was still retrievable)
	errValue string
	// hijReads: "" | "conn" | "brw"; connOnly: exchanges whose hijacker must keep
	// to the net.Conn (see run); T: the liveness bound of this run
	flagErr  map[string]string // exchange -> first disagreement between context flags and calls made
	fifo     bool
	hijReads string
	connOnly map[string]bool
	T        time.Duration
}

type timeoutErr struct{ msg string }

func (e timeoutErr) Error() string   { return e.msg }
func (e timeoutErr) Timeout() bool   { return true }
func (e timeoutErr) Temporary() bool { return true }

// wantErrText is what the Warning header must contain for a failing modifier.
func wantErrText(errValue, kind, id string) string {
	switch errValue {
	case "eof":
		return io.EOF.Error()
	case "closed-pipe":
		return io.ErrClosedPipe.Error()
	}
	return "verif-" + kind + "-" + id
}

func innerMethod(body string) string {
	if body == "" {
		return "GET"
	}
	return "POST"
}

// innerRequest is the wire form of one inner request.
// withCtx adds the context-call header of an exchange to its wire form.
func withCtx(wire, beh, calls string) string {
	if calls == "" {
		return wire
	}
	mark := "X-Verif-Beh: " + beh + "\r\n"
	return strings.Replace(wire, mark, mark+"X-Verif-Ctx: "+calls+"\r\n", 1)
}

func innerRequest(body, target, host, id, beh string) string {
	head := fmt.Sprintf("%s %s HTTP/1.1\r\nHost: %s\r\nX-Verif-Id: %s\r\nX-Verif-Beh: %s\r\n", innerMethod(body), target, host, id, beh)
	var b string
	switch body {
	case "":
		return head + "\r\n"
	case "cl-large":
		b = string(kit.Text(7, 10000))
	case "cl-request-shaped":
		b = "GET http://origin.test/smuggled-in-body-of-" + id + " HTTP/1.1\r\nHost: origin.test\r\nX-Verif-Id: smuggled-" + id + "\r\nX-Verif-Beh: pass\r\n\r\n"
	default:
		b = string(kit.Text(9, 300))
	}
	if body == "chunked" {
		return head + "Transfer-Encoding: chunked\r\n\r\n64\r\n" + b[:100] + "\r\nc8\r\n" + b[100:300] + "\r\n0\r\n\r\n"
	}
	return head + fmt.Sprintf("Content-Length: %d\r\n\r\n%s", len(b), b)
}

func (p *probe) errText(kind, id string) error {
	switch p.errValue {
	case "eof":
		return io.EOF
	case "closed-pipe":
		return io.ErrClosedPipe
	case "timeout":
		return timeoutErr{"verif-" + kind + "-" + id}
	}
	if p.multi {
		return fmt.Errorf("verif-%s-%s\nsecond \"line\" with a \\ backslash\tand a tab", kind, id)
	}
	return fmt.Errorf("verif-%s-%s", kind, id)
}

func (p *probe) record(c call) {
	p.mu.Lock()
	p.calls = append(p.calls, c)
	p.mu.Unlock()
}

// hijack takes the session over, announces itself with marker (if any) and,
// when reads is "conn" or "brw", reads from what it was handed until it has the
// client's token (then acknowledges it), the stream ends or T passes.
func hijack(ctx *martian.Context, c *call, id, marker, reads string, T time.Duration) error {
	conn, brw, err := ctx.Session().Hijack()
	if err != nil {
		return err
	}
	if marker == "" {
		return nil
	}
	brw.WriteString(marker)
	if err := brw.Flush(); err != nil || reads == "" {
		return err
	}
	c.hijRead = true
	var r io.Reader = conn
	if reads == "brw" {
		r = brw.Reader
	}
	token := []byte(hijackToken(id))
	conn.SetReadDeadline(time.Now().Add(T))
	tmp := make([]byte, 512)
	for !bytes.Contains(c.hijGot, token) && len(c.hijGot) < 64<<10 {
		n, err := r.Read(tmp)
		c.hijGot = append(c.hijGot, tmp[:n]...)
		if err != nil {
			c.hijReadErr = err
			break
		}
	}
	conn.SetReadDeadline(time.Time{})
	if bytes.Contains(c.hijGot, token) {
		brw.WriteString(hijackAck(id))
		return brw.Flush()
	}
	return nil
}

func (p *probe) readsFor(id string) string {
	if p.hijReads == "brw" && p.connOnly[id] {
		return "conn"
	}
	return p.hijReads
}

func (p *probe) ModifyRequest(req *http.Request) error {
	id, beh := req.Header.Get("X-Verif-Id"), req.Header.Get("X-Verif-Beh")
	ctx := martian.NewContext(req)
	c := call{phase: "req", id: id, beh: beh, req: req, ctx: ctx, seq: atomic.AddInt64(p.clock, 1), method: req.Method, nilCtx: ctx == nil}
	if ctx != nil {
		c.ctxID, c.sess = ctx.ID(), ctx.Session()
		if c.sess != nil {
			c.sessID = c.sess.ID()
		}
	}
	p.mu.Lock()
	if p.reqOf[id] == nil {
		p.reqOf[id] = req
	}
	silent := p.mitm[id]
	reads := p.readsFor(id)
	// exchanges that ended earlier on this connection (their handler has
	// returned, or this request could not have been read) must be gone
	for _, prev := range p.calls {
		if prev.phase == "req" && prev.sess == c.sess && prev.id != id && prev.method != "CONNECT" && prev.req != nil && martian.NewContext(prev.req) != nil {
			p.stale = append(p.stale, [2]string{prev.id, id})
		}
	}
	p.mu.Unlock()
	if ctx != nil {
		// the context calls of this exchange (the part in front of "|" was the
		// first group member's)
		h := req.Header.Get("X-Verif-Ctx")
		if h == "" && (beh == bSkip || beh == bSkipNoHost) {
			h = "skip"
		}
		seq, split := ctxSeq(h)
		if !p.fifo {
			split = 0
		}
		if msg := ctxApply(ctx, seq, split, len(seq)); msg != "" {
			p.mu.Lock()
			if p.flagErr[id] == "" {
				p.flagErr[id] = "request modifier: " + msg
			}
			p.mu.Unlock()
		}
	}
	var err error
	switch beh {
	case bMutate:
		req.Header.Set("X-Mutated-Req", id)
		if otherScheme(req.URL.Scheme) {
			req.URL.Scheme = "http"
		}
	case bReqErr:
		err = p.errText("reqerr", id)
	case bHijReq:
		if ctx != nil {
			marker := "HIJACKED-REQ-" + id + "\n"
			if silent {
				marker = ""
			}
			c.hijErr = hijack(ctx, &c, id, marker, reads, p.T)
		}
	}
	p.record(c)
	return err
}

func (p *probe) ModifyResponse(res *http.Response) error {
	req := res.Request
	if req == nil {
		p.record(call{phase: "res", id: "<nil-request>", seq: atomic.AddInt64(p.clock, 1), status: res.StatusCode})
		return nil
	}
	id, beh := req.Header.Get("X-Verif-Id"), req.Header.Get("X-Verif-Beh")
	ctx := martian.NewContext(req)
	c := call{phase: "res", id: id, beh: beh, req: req, ctx: ctx, seq: atomic.AddInt64(p.clock, 1), status: res.StatusCode, method: req.Method, nilCtx: ctx == nil, warn: strings.Join(res.Header["Warning"], " | ")}
	if ctx != nil {
		c.ctxID, c.sess = ctx.ID(), ctx.Session()
		if c.sess != nil {
			c.sessID = c.sess.ID()
		}
	}
	if ctx != nil {
		h := req.Header.Get("X-Verif-Ctx")
		if h == "" && (beh == bSkip || beh == bSkipNoHost) {
			h = "skip"
		}
		seq, _ := ctxSeq(h)
		if want, got := ctxFlagsAfter(seq), ctxFlagsRead(ctx); want != got {
			p.mu.Lock()
			if p.flagErr[id] == "" {
				p.flagErr[id] = fmt.Sprintf("response modifier: the context reads {%s}, the request side called {%s}", got, want)
			}
			p.mu.Unlock()
		}
	}
	p.mu.Lock()
	c.sameReq = p.reqOf[id] == req
	silent := p.mitm[id]
	reads := p.readsFor(id)
	p.mu.Unlock()
	var err error
	switch beh {
	case bMutate:
		res.Header.Set("X-Mutated-Res", id)
	case bResErr:
		err = p.errText("reserr", id)
	case bHijRes:
		if ctx != nil {
			marker := "HIJACKED-RES-" + id + "\n"
			if silent {
				marker = ""
			}
			c.hijErr = hijack(ctx, &c, id, marker, reads, p.T)
		}
	}
	p.record(c)
	return err
}

// ---------------------------------------------------------------- run

type expect struct {
	id      string
	beh     string
	conn    int
	wantRes bool
	reached bool // the client got as far as sending it
	scheme  string
}

func isHijack(b string) bool { return b == bHijReq || b == bHijRes }

func run(c Case) kit.Verdict {
	v := runOnce(c, kit.T())
	for _, f := range v {
		if kit.Shrinking() {
			break
		}
		if strings.Contains(f.Sig, "timeout") || strings.Contains(f.Sig, "not-closed") {
			v2 := runOnce(c, 3*kit.T())
			if len(v2) == 0 {
				kit.Inconclusive("modifiers")
				return nil
			}
			return v2
		}
	}
	return v
}

func runOnce(c Case, T time.Duration) (v kit.Verdict) {
	var clock int64
	type receipt struct {
		id  string
		seq int64
		hdr http.Header
		tls bool
	}
	var rmu sync.Mutex
	var receipts []receipt
	handler := func(r *netkit.ReqLog) netkit.Script {
		id := r.Header.Get("X-Verif-Id")
		rmu.Lock()
		receipts = append(receipts, receipt{id: id, seq: atomic.AddInt64(&clock, 1), hdr: r.Header, tls: r.TLS})
		rmu.Unlock()
		body := "BODY-" + id
		return netkit.Script{Raw: []byte(fmt.Sprintf("HTTP/1.1 200 OK\r\nContent-Length: %d\r\nX-Origin-Id: %s\r\n\r\n%s", len(body), id, body)), CutAt: -1}
	}
	plainOrigin := netkit.NewOrigin(handler)
	defer plainOrigin.Close()
	tlsOrigin := netkit.NewTLSOrigin(netkit.ServerTLS("secure.test"), handler)
	defer tlsOrigin.Close()
	early := c.EarlyAnswer && c.Downstream == "" // (the forwarding hop of this harness relays an answer only after the whole request)
	if early {
		// the same answer, given on the head alone; the body is taken afterwards
		early := func(r *netkit.ReqLog) *netkit.Script {
			if r.CL == 0 && len(r.TE) == 0 {
				return nil
			}
			sc := handler(r)
			return &sc
		}
		plainOrigin.Early, tlsOrigin.Early = early, early
	}

	// raw echo target for blind tunnels; closes when it reads a line "BYE"
	echoL, err := netkit.Listen()
	if err != nil {
		return kit.Failf("C02/harness/listen", "%v", err)
	}
	defer echoL.Close()
	var echoConns []net.Conn
	var emu sync.Mutex
	go func() {
		for {
			ec, err := echoL.Accept()
			if err != nil {
				return
			}
			emu.Lock()
			echoConns = append(echoConns, ec)
			emu.Unlock()
			go func() {
				defer ec.Close()
				br := bufio.NewReader(ec)
				for {
					ec.SetReadDeadline(time.Now().Add(30 * time.Second))
					line, err := br.ReadString('\n')
					if err != nil {
						return
					}
					ec.Write([]byte(line))
					if line == "BYE\n" {
						return
					}
				}
			}()
		}
	}()
	defer func() {
		emu.Lock()
		for _, ec := range echoConns {
			ec.Close()
		}
		emu.Unlock()
	}()

	var dmu sync.Mutex
	dialSeq := map[string][]int64{}
	dialer := &netkit.Dialer{Route: func(addr string) string {
		dmu.Lock()
		dialSeq[addr] = append(dialSeq[addr], atomic.AddInt64(&clock, 1))
		dmu.Unlock()
		switch {
		case strings.HasPrefix(addr, "secure.test"):
			return tlsOrigin.Addr
		case strings.HasPrefix(addr, "echo.test"):
			return echoL.Addr().String()
		case strings.HasPrefix(addr, "unreachable.test"), strings.HasPrefix(addr, "down.test"):
			return ""
		case strings.HasPrefix(addr, netkit.LoopAddr()+":"):
			return addr // the downstream proxy's own address
		}
		return plainOrigin.Addr
	}}

	pb := &probe{clock: &clock, reqOf: map[string]*http.Request{}, mitm: map[string]bool{}, multi: c.MultilineErrors, errValue: c.ErrValue,
		hijReads: c.HijackReads, connOnly: map[string]bool{}, T: T, flagErr: map[string]string{}, fifo: c.Fifo}
	needMITM := false
	for _, cn := range c.Conns {
		if cn.Mode == "mitm" || cn.Mode == "mitm-plain" {
			needMITM = true
		}
	}
	p := martian.NewProxy()
	p.SetTimeout(60 * time.Second)
	netkit.UpstreamTLS(p)
	p.SetDial(dialer.Dial)
	var dsLog []dsEntry
	downAddr := ""
	if c.Downstream != "" {
		dl, err := netkit.Listen()
		if err != nil {
			return kit.Failf("C02/harness/listen", "%v", err)
		}
		defer dl.Close()
		downAddr = dl.Addr().String()
		go connectProxy(dl, func(host string) string {
			switch {
			case strings.HasPrefix(host, "echo.test"), strings.HasPrefix(host, "skipped-"):
				return echoL.Addr().String()
			case strings.HasPrefix(host, "secure.test"):
				return tlsOrigin.Addr
			case strings.HasPrefix(host, "origin.test"):
				return plainOrigin.Addr
			}
			return ""
		}, func(e dsEntry) {
			e.seq = atomic.AddInt64(&clock, 1)
			dmu.Lock()
			dsLog = append(dsLog, e)
			dmu.Unlock()
		})
		u := &url.URL{Scheme: "http", Host: downAddr}
		if c.Downstream == "credentials" {
			u.User = url.UserPassword("verif", "secret")
		}
		// (the downstream proxy is made known to the transport martian built; a
		// wrapping RoundTripper is put around it afterwards)
		p.SetDownstreamProxy(u)
	}
	if c.CloneRT {
		p.SetRoundTripper(cloningRT{p.GetRoundTripper()})
	}
	if c.Fifo {
		g := fifo.NewGroup()
		g.AddRequestModifier(ctxPre{pb})
		g.AddRequestModifier(pb)
		p.SetRequestModifier(g)
	} else {
		p.SetRequestModifier(pb)
	}
	p.SetResponseModifier(pb)
	var mitmPool = netkit.OriginPool()
	if needMITM {
		mc, pool, err := netkit.MITM()
		switch c.MITMConf {
		case "h2-refusing-filter":
			mc, pool, err = netkit.MITMH2()
		case "h2-no-filter":
			mc, pool, err = mitmNoFilter()
		}
		if err != nil {
			return kit.Failf("C02/harness/mitm", "%v", err)
		}
		p.SetMITM(mc)
		mitmPool = pool
	}
	// A proxy has one MITM setting; blind tunnels and MITM tunnels therefore
	// never share a case (the generator guarantees it).
	var wrap func(net.Listener) net.Listener
	if c.Shaped {
		wrap = func(l net.Listener) net.Listener { return trafficshape.NewListener(l) }
	}
	pr := netkit.Start(p, wrap)
	stopped := false
	defer func() {
		if !stopped {
			pr.Stop(5 * time.Second)
		}
	}()

	var expects []expect
	var vmu sync.Mutex
	addf := func(sig, format string, args ...interface{}) {
		vmu.Lock()
		v.Addf(sig, format, args...)
		vmu.Unlock()
	}

	// connections are driven one after another (schedules across connections
	// are not part of this property; uniqueness and sharing are)
	for ci, cn := range c.Conns {
		func() {
			raw, err := net.DialTimeout("tcp", pr.Addr, 5*time.Second)
			if err != nil {
				addf("C02/harness/dial", "cannot reach the proxy: %v", err)
				return
			}
			defer raw.Close()
			var conn net.Conn = raw
			br := bufio.NewReader(conn)
			send := func(s string) error {
				conn.SetWriteDeadline(time.Now().Add(10 * time.Second))
				_, err := conn.Write([]byte(s))
				return err
			}
			readResp := func(method string) (*http.Response, []byte, error) {
				conn.SetReadDeadline(time.Now().Add(T))
				res, err := http.ReadResponse(br, &http.Request{Method: method})
				if err != nil {
					return nil, nil, err
				}
				if method == "CONNECT" && res.StatusCode == 200 {
					return res, nil, nil
				}
				body, err := io.ReadAll(res.Body)
				return res, body, err
			}
			// afterHijack: the marker (if any) is all the client receives, then EOF;
			// a further request must trigger nothing.
			// bodyCut: the request that is being hijacked was sent with only the first
			// bytes of its body. Without a marker from the hijacker (inside TLS) the
			// client cannot tell when the hijack has happened, and whatever it sent
			// now would arrive where the rest of that body is due - read by the round
			// trip as (malformed) body. A client that knows nothing sends nothing.
			bodyCut := false
			afterHijack := func(id, marker string, tlsInside bool) {
				shape := cn.Mode + "/" + strings.Split(marker, "-"+id)[0]
				if marker == "" {
					shape = cn.Mode + "/silent-hijack"
				}
				var got []byte
				if marker != "" {
					conn.SetReadDeadline(time.Now().Add(T))
					buf := make([]byte, len(marker))
					n, err := io.ReadFull(br, buf)
					got = buf[:n]
					if err != nil || string(got) != marker {
						class := "hijacker-bytes-not-delivered"
						if netkit.IsTimeout(err) {
							class = "timeout-hijacker-bytes"
						}
						addf("C02/hijack/"+shape+"/"+class, "exchange %s: expected the hijacker's %q, got %q (%v)", id, marker, got, err)
						return
					}
				}
				reading := marker != "" && c.HijackReads != ""
				if reading {
					// what the client sends now is the hijacker's: the token, then
					// the end of the client's stream
					send(hijackToken(id))
					if cw, ok := conn.(interface{ CloseWrite() error }); ok {
						cw.CloseWrite()
					}
				} else if !(marker == "" && bodyCut) {
					send("GET http://origin.test/after-hijack HTTP/1.1\r\nHost: origin.test\r\nX-Verif-Id: after-hijack-" + id + "\r\nX-Verif-Beh: pass\r\n\r\n")
				}
				conn.SetReadDeadline(time.Now().Add(T))
				stray, rerr := io.ReadAll(br)
				if reading {
					// (a missing acknowledgement is judged by what the hijacker read)
					stray = bytes.TrimPrefix(stray, []byte(hijackAck(id)))
				}
				closed := rerr == nil || netkit.IsReset(rerr) || (tlsInside && !netkit.IsTimeout(rerr))
				if len(stray) > 0 {
					addf("C02/hijack/"+shape+"/bytes-after-hijack", "exchange %s: after the hijacker returned the client still received %q", id, trunc(stray, 120))
				}
				if !closed {
					class := "not-closed"
					if netkit.IsTimeout(rerr) {
						class = "not-closed-timeout"
					}
					addf("C02/hijack/"+shape+"/"+class, "exchange %s: the proxy did not close the hijacked connection within %v after the modifier returned (%v)", id, T, rerr)
				} else if !tlsInside && rerr == nil && !reading {
					// end-of-stream alone could be a half-close by a proxy that goes on
					// reading: a closed socket refuses further bytes (reset) within moments
					refused := false
					for k := 0; k < 6 && !refused; k++ {
						conn.SetWriteDeadline(time.Now().Add(time.Second))
						if _, werr := conn.Write([]byte("STILL-THERE?\n")); werr != nil {
							refused = true
						}
						time.Sleep(30 * time.Millisecond)
					}
					if !refused {
						addf("C02/hijack/"+shape+"/half-closed-and-still-reading", "exchange %s: after the modifier returned the client saw end-of-stream, but the proxy's socket still accepted bytes 180 ms later: it was only half-closed", id)
					}
				}
			}

			tlsInside := false
			if cn.Mode != "plain" {
				id := fmt.Sprintf("c%d-connect", ci)
				host := "secure.test:443"
				if cn.Mode == "mitm-plain" {
					host = "origin.test:80"
				}
				if cn.Mode == "blind" {
					host = "echo.test:7"
					if cn.Unreachable {
						host = "unreachable.test:7"
					}
					if cn.ConnectBeh == bSkip {
						host = fmt.Sprintf("skipped-%d.test:7", ci)
					}
				}
				e := expect{id: id, beh: cn.ConnectBeh, conn: ci, wantRes: cn.ConnectBeh != bHijReq, reached: true}
				expects = append(expects, e)
				if err := send(withCtx(fmt.Sprintf("CONNECT %s HTTP/1.1\r\nHost: %s\r\nX-Verif-Id: %s\r\nX-Verif-Beh: %s\r\n\r\n", host, host, id, cn.ConnectBeh), cn.ConnectBeh, cn.ctxCalls(-1, cn.ConnectBeh))); err != nil {
					addf("C02/harness/write", "%v", err)
					return
				}
				if isHijack(cn.ConnectBeh) {
					marker := "HIJACKED-REQ-" + id + "\n"
					if cn.ConnectBeh == bHijRes {
						marker = "HIJACKED-RES-" + id + "\n"
					}
					afterHijack(id, marker, false)
					return
				}
				res, body, err := readResp("CONNECT")
				if err != nil {
					class := "no-response"
					if netkit.IsTimeout(err) {
						class = "timeout-response"
					}
					addf("C02/connect/"+cn.Mode+"/"+class, "CONNECT %s: %v", id, err)
					return
				}
				wantStatus := 200
				if cn.Unreachable {
					wantStatus = 502
				}
				if res.StatusCode != wantStatus {
					addf("C02/connect/"+cn.Mode+"/status", "CONNECT %s answered %d, want %d", id, res.StatusCode, wantStatus)
					return
				}
				if cn.ConnectBeh == bResErr && !strings.Contains(strings.Join(res.Header["Warning"], " | "), wantErrText(c.ErrValue, "reserr", id)) {
					addf("C02/error/"+cn.Mode+"-connect/response-error-not-in-warning", "CONNECT %s: response modifier returned an error but the client's Warning headers are %q", id, res.Header["Warning"])
				}
				if cn.ConnectBeh == bMutate && res.Header.Get("X-Mutated-Res") != id {
					addf("C02/mutate/"+cn.Mode+"-connect/response-mutation-lost", "CONNECT %s: X-Mutated-Res = %q", id, res.Header.Get("X-Mutated-Res"))
				}
				if cn.ConnectBeh == bSkip {
					return // no tunnel was asked for by the modifiers; what counts is the call log and the dial log
				}
				if cn.Unreachable {
					if c.Downstream == "" && res.Header.Get("Warning") == "" {
						addf("C02/connect/blind/502-without-warning", "CONNECT to an unreachable target: 502 without Warning")
					}
					_ = body
					return
				}
				if cn.Mode == "blind" {
					for k := 0; k < 2; k++ {
						msg := fmt.Sprintf("ping-%d-%d\n", ci, k)
						send(msg)
						conn.SetReadDeadline(time.Now().Add(T))
						line, err := br.ReadString('\n')
						if err != nil || line != msg {
							class := "echo-differs"
							if netkit.IsTimeout(err) {
								class = "timeout-echo"
							}
							addf("C02/connect/blind/"+class, "tunnel echo: sent %q got %q (%v)", msg, line, err)
							return
						}
					}
					// the target ends the tunnel first, then the client does
					send("BYE\n")
					conn.SetReadDeadline(time.Now().Add(T))
					br.ReadString('\n')
					return
				}
				// mitm: upgrade (mitm-plain: cleartext HTTP inside the tunnel - every
				// request in it is still an exchange of its own)
				if cn.Mode == "mitm" {
					tconf := &tls.Config{ServerName: "secure.test", RootCAs: mitmPool}
					if c.ALPN != "" {
						tconf.NextProtos = strings.Split(c.ALPN, ",")
					}
					tc := tls.Client(raw, tconf)
					tc.SetDeadline(time.Now().Add(T))
					if err := tc.Handshake(); err != nil {
						addf("C02/connect/mitm/handshake", "TLS handshake inside the tunnel failed: %v", err)
						return
					}
					if np := tc.ConnectionState().NegotiatedProtocol; np != "" && np != "http/1.1" {
						// No configuration of this check allows HTTP/2 for any host: a
						// session served as HTTP/2 goes to the frame relay, past both modifiers.
						conf := c.MITMConf
						if conf == "" {
							conf = "no-h2-config"
						}
						addf("C02/mitm/"+conf+"/h2-negotiated-for-host-not-allowed", "client offered ALPN %q inside the tunnel to secure.test: the proxy negotiated %q although HTTP/2 is allowed for no host (MITM configuration: %s); the decrypted requests of such a session bypass the request and response modifiers", c.ALPN, np, conf)
						return
					}
					conn = tc
					br = bufio.NewReader(tc)
					tlsInside = true
				}
			}
			if cn.Mode == "blind" {
				return
			}
			for xi, beh := range cn.Inner {
				id := fmt.Sprintf("c%d-x%d", ci, xi)
				scheme := ""
				if cn.Mode == "plain" && beh != bSkipNoHost {
					scheme = cn.scheme(xi)
				}
				expects = append(expects, expect{id: id, beh: beh, conn: ci, wantRes: beh != bHijReq, reached: true, scheme: scheme})
				if tlsInside && isHijack(beh) {
					pb.mu.Lock()
					pb.mitm[id] = true
					pb.mu.Unlock()
				}
				target, host := "http://origin.test/"+id, "origin.test"
				if tlsInside {
					target, host = "/"+id, "secure.test"
				} else if cn.Mode == "mitm-plain" {
					target = "/" + id
				}
				if beh == bDown {
					if tlsInside || cn.Mode == "mitm-plain" {
						target, host = "/"+id, "down.test"
					} else {
						target, host = "http://down.test/"+id, "down.test"
					}
				}
				if scheme != "" {
					if scheme == "https" && beh != bDown {
						host = "secure.test"
					}
					target = scheme + "://" + host + "/" + id
				}
				wire := innerRequest(c.Body, target, host, id, beh)
				if beh == bSkipNoHost {
					wire = fmt.Sprintf("GET /healthz-%s HTTP/1.0\r\nX-Verif-Id: %s\r\nX-Verif-Beh: %s\r\n\r\n", id, id, beh)
				}
				wire = withCtx(wire, beh, cn.ctxCalls(xi, beh))
				if beh == bHijReq && c.Body != "" && c.PartialOnHijack {
					wire = wire[:strings.Index(wire, "\r\n\r\n")+4+3]
					bodyCut = true
				}
				if beh == bHijRes && c.Body != "" && early && !otherScheme(scheme) { // (an early answer takes an origin that is reached)
					// The body of this request is (or may still be) in transit when the
					// response modifier hijacks: whoever forwards it shares the session's
					// bufio.Reader, so this hijacker keeps to the net.Conn.
					pb.mu.Lock()
					pb.connOnly[id] = true
					pb.mu.Unlock()
					if c.PartialOnHijack {
						wire = wire[:strings.Index(wire, "\r\n\r\n")+4+3]
						bodyCut = true
					}
				}
				if err := send(wire); err != nil {
					if isHijack(beh) && c.Body != "" {
						// The hijacker may take the connection - and the proxy close it on
						// the hijacker's return - while the body is still being written:
						// a refused write is then the close this exchange is due.
						return
					}
					addf("C02/exchange/"+cn.Mode+"/client-write-failed", "exchange %s: %v", id, err)
					return
				}
				if isHijack(beh) {
					marker := "HIJACKED-REQ-" + id + "\n"
					if beh == bHijRes {
						marker = "HIJACKED-RES-" + id + "\n"
					}
					if tlsInside {
						marker = ""
					}
					afterHijack(id, marker, tlsInside)
					return
				}
				method := innerMethod(c.Body)
				if beh == bSkipNoHost {
					method = "GET"
				}
				res, body, err := readResp(method)
				if err != nil {
					class := "no-response"
					if netkit.IsTimeout(err) {
						class = "timeout-response"
					}
					addf("C02/exchange/"+cn.Mode+"/"+class, "exchange %s (%s): %v", id, beh, err)
					return
				}
				if otherScheme(scheme) && beh != bMutate && beh != bSkip {
					// No round trip is possible; what the answer is (502 today) is not
					// the statement's business, that it passed the response modifier is.
					if beh == bResErr && !strings.Contains(strings.Join(res.Header["Warning"], " | "), wantErrText(c.ErrValue, "reserr", id)) {
						addf("C02/error/"+cn.Mode+"-non-http-scheme/response-error-not-in-warning", "exchange %s (%s://): response modifier returned an error but the client's Warning headers are %q", id, scheme, res.Header["Warning"])
					}
					continue
				}
				if beh == bDown {
					// (through a downstream proxy the refusal may be that proxy's own answer)
					if res.StatusCode != 502 || (c.Downstream == "" && res.Header.Get("Warning") == "") {
						addf("C02/exchange/"+cn.Mode+"/origin-down-not-502-with-warning", "exchange %s: origin cannot be dialled, client got %d with Warning %q", id, res.StatusCode, res.Header["Warning"])
					}
					continue
				}
				if res.StatusCode != 200 {
					addf("C02/exchange/"+cn.Mode+"/status", "exchange %s (%s) answered %d (Warning %q)", id, beh, res.StatusCode, res.Header["Warning"])
					continue
				}
				switch beh {
				case bSkip, bSkipNoHost:
					if len(body) != 0 || res.Header.Get("X-Origin-Id") != "" {
						addf("C02/skip/"+cn.Mode+"/origin-response-delivered", "exchange %s asked to skip the round trip but the client got the origin's answer %q", id, trunc(body, 60))
					}
				default:
					if string(body) != "BODY-"+id {
						addf("C02/exchange/"+cn.Mode+"/wrong-body", "exchange %s (%s): body %q", id, beh, trunc(body, 60))
					}
				}
				if beh == bResErr && !strings.Contains(strings.Join(res.Header["Warning"], " | "), wantErrText(c.ErrValue, "reserr", id)) {
					addf("C02/error/"+cn.Mode+"/response-error-not-in-warning", "exchange %s: response modifier returned an error but the client's Warning headers are %q", id, res.Header["Warning"])
				}
				if beh == bMutate && res.Header.Get("X-Mutated-Res") != id {
					addf("C02/mutate/"+cn.Mode+"/response-mutation-lost", "exchange %s: X-Mutated-Res = %q", id, res.Header.Get("X-Mutated-Res"))
				}
			}
		}()
	}

	// quiescence
	stopped = true
	if !pr.Stop(T) {
		v.Addf("C02/quiescence/proxy-close-not-returning-timeout", "Proxy.Close() did not return within %v after all client connections were closed", T)
	}
	pb.mu.Lock()
	calls := append([]call(nil), pb.calls...)
	pb.mu.Unlock()
	rmu.Lock()
	recs := append([]receipt(nil), receipts...)
	rmu.Unlock()

	modeOf := func(ci int) string { return c.Conns[ci].Mode }
	byID := map[string][]call{}
	for _, cl := range calls {
		byID[cl.id] = append(byID[cl.id], cl)
	}
	want := map[string]expect{}
	for _, e := range expects {
		want[e.id] = e
	}
	for id, cs := range byID {
		if _, ok := want[id]; !ok {
			shape := "unknown"
			if strings.HasPrefix(id, "after-hijack-") {
				shape = "request-read-after-hijack"
			}
			v.Addf("C02/calls/"+shape+"/unexpected-modifier-call", "modifier called %d time(s) for %q (%s), which no exchange of the script accounts for", len(cs), id, cs[0].phase)
		}
	}
	ctxIDs := map[string]string{}
	sessOfConn := map[int]*martian.Session{}
	connOfSess := map[*martian.Session]int{}
	for _, e := range expects {
		cs := byID[e.id]
		m := modeOf(e.conn)
		kind := m
		if strings.HasSuffix(e.id, "-connect") {
			kind = m + "-connect"
		}
		if otherScheme(e.scheme) {
			kind = m + "-non-http-scheme"
		}
		unforwardable := otherScheme(e.scheme) && e.beh != bMutate
		var reqCalls, resCalls []call
		for _, cl := range cs {
			if cl.phase == "req" {
				reqCalls = append(reqCalls, cl)
			} else {
				resCalls = append(resCalls, cl)
			}
		}
		if len(reqCalls) != 1 {
			v.Addf("C02/calls/"+kind+"/"+e.beh+"/request-modifier-count", "exchange %s: request modifier ran %d times, want exactly 1", e.id, len(reqCalls))
			continue
		}
		rq := reqCalls[0]
		wantRes := 0
		if e.wantRes {
			wantRes = 1
		}
		if len(resCalls) != wantRes {
			v.Addf("C02/calls/"+kind+"/"+e.beh+"/response-modifier-count", "exchange %s: response modifier ran %d times, want exactly %d", e.id, len(resCalls), wantRes)
		}
		if rq.nilCtx {
			v.Addf("C02/context/"+kind+"/no-context-in-request-modifier", "exchange %s: martian.NewContext(req) is nil inside the request modifier", e.id)
			continue
		}
		if other, dup := ctxIDs[rq.ctxID]; dup {
			v.Addf("C02/context/"+kind+"/context-id-not-unique", "exchanges %s and %s share context ID %s", other, e.id, rq.ctxID)
		}
		ctxIDs[rq.ctxID] = e.id
		if s, ok := sessOfConn[e.conn]; ok && s != rq.sess {
			v.Addf("C02/session/"+kind+"/session-not-shared-within-connection", "exchange %s runs in session %s, earlier exchanges of connection %d in %s", e.id, rq.sessID, e.conn, s.ID())
		}
		sessOfConn[e.conn] = rq.sess
		if oc, ok := connOfSess[rq.sess]; ok && oc != e.conn {
			v.Addf("C02/session/"+kind+"/session-shared-across-connections", "connections %d and %d share session %s", oc, e.conn, rq.sessID)
		}
		connOfSess[rq.sess] = e.conn
		// the context's flags are the calls the request side made, no more, no less
		pb.mu.Lock()
		fe := pb.flagErr[e.id]
		pb.mu.Unlock()
		if fe != "" {
			idx := -1
			if !strings.HasSuffix(e.id, "-connect") {
				fmt.Sscanf(e.id[strings.LastIndex(e.id, "-x")+2:], "%d", &idx)
			}
			v.Addf("C02/context/"+kind+"/context-flags-differ-from-calls-made", "exchange %s (%s, context calls %q, fifo group %v): %s", e.id, e.beh, c.Conns[e.conn].ctxCalls(idx, e.beh), c.Fifo, fe)
		}
		// a reading hijacker gets everything the client sends after the hijack
		for _, cl := range cs {
			if !cl.hijRead || bytes.Contains(cl.hijGot, []byte(hijackToken(e.id))) {
				continue
			}
			shape := m + "/HIJACKED-" + strings.ToUpper(cl.phase)
			if cl.phase == "res" && pb.connOnly[e.id] {
				shape += "-body-in-transit"
			}
			class := "client-bytes-after-hijack-not-received-by-hijacker"
			if netkit.IsTimeout(cl.hijReadErr) {
				class = "timeout-" + class
			}
			v.Addf("C02/hijack/"+shape+"/"+class, "exchange %s: the %s modifier hijacked the session, announced itself and read from the %s it was handed: it got %q (%v), not the %q the client sent after the announcement and before ending its stream - somebody else read from the hijacked connection", e.id, map[string]string{"req": "request", "res": "response"}[cl.phase], pb.readsFor(e.id), trunc(cl.hijGot, 80), cl.hijReadErr, hijackToken(e.id))
		}
		for _, rs := range resCalls {
			if rs.seq < rq.seq {
				v.Addf("C02/calls/"+kind+"/response-modifier-before-request-modifier", "exchange %s", e.id)
			}
			if !rs.sameReq {
				v.Addf("C02/context/"+kind+"/response-request-is-not-the-request", "exchange %s: res.Request is not the *http.Request the request modifier saw", e.id)
			}
			if rs.nilCtx || rs.ctx != rq.ctx {
				v.Addf("C02/context/"+kind+"/context-differs-between-modifiers", "exchange %s: request modifier saw context %s, response modifier %s (nil=%v)", e.id, rq.ctxID, rs.ctxID, rs.nilCtx)
			}
		}
		// upstream contact
		var mine []receipt
		for _, r := range recs {
			if r.id == e.id {
				mine = append(mine, r)
			}
		}
		// ... which includes the downstream proxy, where one is configured
		if c.Downstream != "" {
			via := kind + "-via-downstream-proxy"
			skipped := e.beh == bSkip || e.beh == bSkipNoHost
			n := 0
			dmu.Lock()
			for _, d := range dsLog {
				if d.id != e.id {
					continue
				}
				n++
				if d.seq < rq.seq {
					v.Addf("C02/calls/"+via+"/upstream-contact-before-request-modifier", "exchange %s reached the downstream proxy (t=%d) before its request modifier ran (t=%d)", e.id, d.seq, rq.seq)
				}
			}
			// A CONNECT the proxy answers itself dials nobody. (Attributable when
			// nothing but blind tunnels runs in the case: no transport dials on its own.)
			dials := 0
			if skipped && strings.HasSuffix(e.id, "-connect") && len(resCalls) == 1 {
				onlyBlind := true
				for _, cn := range c.Conns {
					onlyBlind = onlyBlind && cn.Mode == "blind"
				}
				for _, d := range dialSeq[downAddr] {
					if onlyBlind && d > rq.seq && d < resCalls[0].seq {
						dials++
					}
				}
			}
			dmu.Unlock()
			if (skipped || e.beh == bHijReq || unforwardable) && n+dials > 0 {
				v.Addf("C02/"+map[bool]string{true: "skip", false: "calls"}[skipped]+"/"+via+"/upstream-contacted", "exchange %s (%s) must cause no upstream contact, but the downstream proxy received it %d time(s) and was dialled %d time(s) between its two modifier calls", e.id, e.beh, n, dials)
			}
		}
		switch {
		case strings.HasSuffix(e.id, "-connect"):
			if m == "blind" {
				host := "echo.test:7"
				if c.Conns[e.conn].Unreachable {
					host = "unreachable.test:7"
				}
				dmu.Lock()
				ds := dialSeq[host]
				dmu.Unlock()
				for _, d := range ds {
					_ = d
				}
				if e.beh == bHijReq && len(ds) > 0 && false {
					// several blind connections may dial the same host; not attributable
				}
				if e.beh == bSkip {
					dmu.Lock()
					n := len(dialSeq[fmt.Sprintf("skipped-%d.test:7", e.conn)])
					dmu.Unlock()
					if n > 0 {
						v.Addf("C02/skip/blind-connect/upstream-contacted", "CONNECT %s: the request modifier asked to skip the round trip, yet the target was dialled %d time(s)", e.id, n)
					}
				}
				if len(ds) > 0 && ds[0] < rq.seq && len(c.Conns) == 1 {
					v.Addf("C02/calls/blind-connect/upstream-contact-before-request-modifier", "target dialled (t=%d) before the request modifier ran (t=%d)", ds[0], rq.seq)
				}
			}
		case e.beh == bSkip || e.beh == bSkipNoHost || e.beh == bHijReq || e.beh == bDown || unforwardable:
			if len(mine) != 0 {
				clause := map[string]string{bSkip: "skip", bSkipNoHost: "skip", bHijReq: "hijack", bDown: "origin-down"}[e.beh]
				if clause == "" {
					clause = "exchange"
				}
				v.Addf("C02/"+clause+"/"+kind+"/origin-contacted", "exchange %s (%s) must not reach the origin but the origin received it %d time(s)", e.id, e.beh, len(mine))
			}
		default:
			if len(mine) != 1 {
				if len(resCalls) == wantRes { // otherwise already reported above
					st, wn := 0, ""
					if len(resCalls) > 0 {
						st, wn = resCalls[0].status, resCalls[0].warn
					}
					v.Addf("C02/calls/"+kind+"/"+e.beh+"/origin-receipt-count", "exchange %s reached the origin %d times, want 1 (its response modifier saw status %d, Warning %q)", e.id, len(mine), st, wn)
				}
				break
			}
			if mine[0].seq < rq.seq {
				v.Addf("C02/calls/"+kind+"/upstream-contact-before-request-modifier", "exchange %s reached the origin (t=%d) before its request modifier ran (t=%d)", e.id, mine[0].seq, rq.seq)
			}
			if e.beh == bReqErr && !strings.Contains(strings.Join(mine[0].hdr["Warning"], " | "), wantErrText(c.ErrValue, "reqerr", e.id)) {
				v.Addf("C02/error/"+kind+"/request-error-not-in-warning", "exchange %s: request modifier returned an error but the origin saw Warning %q", e.id, mine[0].hdr["Warning"])
			}
			if e.beh == bMutate && mine[0].hdr.Get("X-Mutated-Req") != e.id {
				v.Addf("C02/mutate/"+kind+"/request-mutation-lost", "exchange %s: origin saw X-Mutated-Req %q", e.id, mine[0].hdr.Get("X-Mutated-Req"))
			}
			if m == "mitm" && !mine[0].tls {
				v.Addf("C02/exchange/mitm/forwarded-in-cleartext", "exchange %s reached the cleartext origin", e.id)
			}
		}
	}
	pb.mu.Lock()
	for _, st := range pb.stale {
		v.Addf("C02/context/any/context-of-ended-exchange-retrievable-during-next", "the context of exchange %s (ended: its response was delivered and the next request read) was still retrievable when the request modifier of %s ran on the same connection", st[0], st[1])
		break
	}
	pb.mu.Unlock()
	// (e) nothing retrievable after the end
	leaked := 0
	for _, cl := range calls {
		if cl.req != nil && martian.NewContext(cl.req) != nil {
			leaked++
		}
	}
	if leaked > 0 {
		v.Addf("C02/context/any/context-still-retrievable-after-exchange", "%d recorded requests still have a context after the proxy closed", leaked)
	}
	if n := martian.VerifLiveContexts(); n != 0 {
		// give handlers that are unwinding a moment, then look again
		if !kit.Eventually(T, func() bool { return martian.VerifLiveContexts() == 0 }) {
			v.Addf("C02/context/any/context-table-not-empty-at-quiescence", "%d request-to-context associations remain after the proxy closed (was %d)", martian.VerifLiveContexts(), n)
		}
	}
	return v
}

func trunc(b []byte, n int) []byte {
	if len(b) > n {
		return b[:n]
	}
	return b
}

var _ = bytes.Equal

// ---------------------------------------------------------------- generator

func genCase(t *rapid.T) Case {
	family := rapid.SampledFrom([]string{"plain", "plain", "blind", "mitm", "mitm"}).Draw(t, "family")
	n := rapid.IntRange(1, 3).Draw(t, "conns")
	var c Case
	c.CloneRT = rapid.IntRange(0, 3).Draw(t, "clone_rt") == 0
	c.MultilineErrors = rapid.Bool().Draw(t, "multiline_errors")
	c.ErrValue = rapid.SampledFrom([]string{"", "", "", "eof", "closed-pipe", "timeout"}).Draw(t, "err_value")
	if c.ErrValue != "" {
		c.MultilineErrors = false
	}
	c.Shaped = rapid.IntRange(0, 4).Draw(t, "shaped") == 0
	c.Body = rapid.SampledFrom([]string{"", "", "", "cl", "cl-large", "chunked", "cl-request-shaped", "cl-request-shaped"}).Draw(t, "body")
	c.PartialOnHijack = c.Body != "" && rapid.Bool().Draw(t, "partial_on_hijack")
	c.EarlyAnswer = c.Body != "" && rapid.Bool().Draw(t, "early_answer")
	c.HijackReads = rapid.SampledFrom([]string{"", "conn", "brw"}).Draw(t, "hijack_reads")
	c.Fifo = rapid.Bool().Draw(t, "fifo")
	if family == "mitm" {
		c.MITMConf = rapid.SampledFrom([]string{"", "h2-refusing-filter", "h2-no-filter"}).Draw(t, "mitm_conf")
		c.ALPN = rapid.SampledFrom([]string{"", "http/1.1", "h2,http/1.1", "h2,http/1.1"}).Draw(t, "alpn")
	}
	// the context calls of one exchange: "skip" iff the behaviour skips, "api"
	// and "log" drawn, in a drawn order, split at a drawn place between the two
	// members of the group
	genCtx := func(beh string) string {
		var seq []string
		if beh == bSkip || beh == bSkipNoHost {
			seq = append(seq, "skip")
		}
		if rapid.IntRange(0, 2).Draw(t, "ctx_api") == 0 {
			seq = append(seq, "api")
		}
		if rapid.IntRange(0, 2).Draw(t, "ctx_log") == 0 {
			seq = append(seq, "log")
		}
		if len(seq) > 1 {
			seq = rapid.Permutation(seq).Draw(t, "ctx_order")
		}
		if c.Fifo && len(seq) > 0 {
			at := rapid.IntRange(0, len(seq)).Draw(t, "ctx_split")
			seq = append(seq[:at:at], append([]string{"|"}, seq[at:]...)...)
		}
		return strings.Join(seq, ",")
	}
	// the proxy reaches upstream through a downstream proxy: half of the blind
	// cases, a quarter of the plain ones
	if (family == "blind" && rapid.Bool().Draw(t, "via_downstream")) || (family == "plain" && rapid.IntRange(0, 3).Draw(t, "via_downstream") == 0) {
		c.Downstream = rapid.SampledFrom([]string{"plain", "credentials"}).Draw(t, "downstream")
		c.EarlyAnswer = false
	}
	for i := 0; i < n; i++ {
		mode := family
		if family != "plain" && rapid.IntRange(0, 2).Draw(t, "plain_too") == 0 {
			mode = "plain"
		}
		if mode == "mitm" && rapid.IntRange(0, 3).Draw(t, "plain_inside") == 0 {
			mode = "mitm-plain"
		}
		cn := Conn{Mode: mode}
		if mode != "plain" {
			cn.ConnectBeh = rapid.SampledFrom([]string{bPass, bPass, bPass, bMutate, bReqErr, bResErr, bHijReq, bHijRes}).Draw(t, "connect_beh")
			if mode == "blind" {
				// (through a downstream proxy the refusal is that proxy's answer, which martian relays)
				cn.Unreachable = rapid.IntRange(0, 4).Draw(t, "unreachable") == 0
				if rapid.IntRange(0, 5).Draw(t, "skip_connect") == 0 {
					cn.ConnectBeh, cn.Unreachable = bSkip, false
				}
			}
			cn.ConnectCtx = genCtx(cn.ConnectBeh)
		}
		if mode != "blind" {
			k := rapid.IntRange(1, 5).Draw(t, "inner")
			for j := 0; j < k; j++ {
				b := rapid.SampledFrom([]string{bPass, bPass, bPass, bMutate, bReqErr, bResErr, bSkip, bDown, bHijReq, bHijRes}).Draw(t, "beh")
				if mode == "plain" && b == bSkip && rapid.IntRange(0, 3).Draw(t, "nohost") == 0 {
					b = bSkipNoHost
				}
				cn.Inner = append(cn.Inner, b)
				cn.Ctx = append(cn.Ctx, genCtx(b))
				if mode == "plain" {
					sch := ""
					if rapid.IntRange(0, 3).Draw(t, "other_scheme") == 0 {
						sch = rapid.SampledFrom([]string{"ftp", "ws", "gopher", "hxxp", "https", "HTTP"}).Draw(t, "scheme")
					}
					cn.Schemes = append(cn.Schemes, sch)
				}
				if isHijack(b) || b == bSkipNoHost {
					break // (an HTTP/1.0 request without keep-alive ends its connection)
				}
			}
		}
		c.Conns = append(c.Conns, cn)
	}
	return c
}

func nontrivial(c Case) bool {
	for _, cn := range c.Conns {
		n := len(cn.Inner)
		if cn.Mode != "plain" {
			n++
			if cn.ConnectBeh != bPass {
				return true
			}
		}
		if n >= 2 {
			return true
		}
		for _, b := range cn.Inner {
			if b != bPass {
				return true
			}
		}
	}
	return false
}

func classes(c Case) []string {
	set := map[string]bool{}
	for _, cn := range c.Conns {
		set["mode-"+cn.Mode] = true
		if cn.ConnectBeh != "" {
			set["connect-"+cn.ConnectBeh] = true
		}
		for _, b := range cn.Inner {
			set["beh-"+b] = true
		}
		if len(cn.Inner) >= 2 {
			set["multi-exchange-connection"] = true
		}
		if cn.Unreachable {
			set["unreachable-target"] = true
			if c.Downstream != "" {
				set["connect-refused-by-downstream-proxy"] = true
			}
		}
	}
	if len(c.Conns) >= 2 {
		set["multi-connection"] = true
	}
	if c.CloneRT {
		set["cloning-roundtripper"] = true
	}
	if c.Downstream != "" {
		set["downstream-"+c.Downstream] = true
	}
	if c.MultilineErrors {
		set["multiline-errors"] = true
	}
	if c.ErrValue != "" {
		set["error-value-"+c.ErrValue] = true
	}
	if c.Body != "" {
		set["request-bodies-"+c.Body] = true
		if c.PartialOnHijack {
			for _, cn := range c.Conns {
				for _, b := range cn.Inner {
					if b == bHijReq {
						set["hijack-on-request-with-body-still-arriving"] = true
					}
				}
			}
		}
		for _, cn := range c.Conns {
			for i, b := range cn.Inner {
				if (b == bSkip || b == bDown) && i+1 < len(cn.Inner) {
					set["unread-request-body-then-next-exchange"] = true
				}
			}
		}
	}
	if c.Shaped {
		set["traffic-shaped-listener"] = true
	}
	if c.EarlyAnswer {
		set["origin-answers-before-the-body"] = true
	}
	ctxClass := func(calls string) {
		if calls == "" || calls == "skip" {
			return
		}
		seq, split := ctxSeq(calls)
		if len(seq) >= 2 {
			set["context-calls-two-or-more"] = true
		}
		if c.Fifo && split > 0 && split < len(seq) {
			set["context-calls-split-across-group-members"] = true
		}
		for i, a := range seq {
			for _, b := range seq[i+1:] {
				set["context-call-"+a+"-then-"+b] = true
			}
		}
	}
	for _, cn := range c.Conns {
		if cn.Mode != "plain" {
			ctxClass(cn.ctxCalls(-1, cn.ConnectBeh))
		}
		for i, b := range cn.Inner {
			ctxClass(cn.ctxCalls(i, b))
		}
		if cn.Mode == "mitm" {
			conf := c.MITMConf
			if conf == "" {
				conf = "no-h2-config"
			}
			set["mitm-conf-"+conf] = true
			set["client-alpn-"+c.ALPN] = true
			if strings.HasPrefix(c.ALPN, "h2") {
				set["client-offers-h2-to-"+conf] = true
			}
		}
	}
	for _, cn := range c.Conns {
		if c.Downstream != "" {
			set["via-downstream-proxy-"+cn.Mode] = true
			if cn.ConnectBeh == bSkip {
				set["skipped-connect-with-downstream-proxy"] = true
			}
		}
		if cn.Mode != "plain" {
			continue
		}
		for i, b := range cn.Inner {
			if b == bSkipNoHost || cn.scheme(i) == "" {
				continue
			}
			if otherScheme(cn.scheme(i)) {
				set["target-scheme-not-http"] = true
				set["target-scheme-not-http-"+b] = true
			} else {
				set["target-scheme-"+cn.scheme(i)] = true
			}
		}
	}
	for _, cn := range c.Conns {
		// (hijackers inside TLS stay silent and do not read)
		if cn.Mode != "plain" && isHijack(cn.ConnectBeh) && c.HijackReads != "" {
			set["hijacker-reads-"+c.HijackReads] = true
			set["reading-hijacker-on-"+cn.ConnectBeh] = true
		}
		if cn.Mode == "mitm" || (cn.Mode != "plain" && isHijack(cn.ConnectBeh)) {
			continue
		}
		for _, b := range cn.Inner {
			if !isHijack(b) {
				continue
			}
			if c.HijackReads != "" {
				set["hijacker-reads-"+c.HijackReads] = true
				set["reading-hijacker-on-"+b] = true
				if b == bHijRes && c.Body == "" {
					set["reading-hijacker-on-response-of-bodyless-request"] = true
				}
			}
			if b == bHijRes && c.Body != "" && c.EarlyAnswer {
				set["response-hijack-with-request-body-in-transit"] = true
				if c.HijackReads != "" {
					set["reading-hijacker-on-response-with-request-body-in-transit"] = true
				}
			}
		}
	}
	var out []string
	for k := range set {
		out = append(out, k)
	}
	return out
}

var propMods = &kit.Prop[Case]{
	ID: "C02", Name: "modifiers",
	Rule: "1..3 connections (plain, blind CONNECT to an echo target, CONNECT+MITM with inner requests over TLS), 1..5 exchanges each, behaviour per exchange in {pass, mutate, request error, response error, skip round trip, hijack on request, hijack on response}; hijackers outside TLS optionally go on to read what the client sends next (from the conn or the bufio.ReadWriter they were handed); origins that answer on the head while the request body is still in transit; upstream reached directly or through a downstream proxy (plain requests and blind CONNECTs; what reaches that proxy counts as upstream contact); per exchange a drawn sequence of context calls (SkipRoundTrip iff the behaviour skips, APIRequest, SkipLogging, any order, optionally split over the two members of a fifo group, flags read back after every call and by the response modifier); MITM configuration without HTTP/2, with an h2.Config whose filter refuses every host, or with one that has no filter, x client ALPN offer none / http/1.1 / h2+http/1.1; absolute-form targets with the scheme http, https, HTTP or one no transport carries (ftp, ws, gopher, hxxp); probe modifiers log every call with request/context/session identity; non-trivial = >=2 exchanges on a connection or any behaviour other than pass",
	Gen:  genCase, Run: run, NonTrivial: nontrivial, Classes: classes, Journal: true,
	Gates: map[string]float64{"multi-exchange-connection": 0.4, "mode-mitm": 0.2, "mode-blind": 0.1, "beh-hijack-req": 0.08, "beh-hijack-res": 0.08, "beh-skip": 0.1,
		"reading-hijacker-on-hijack-res": 0.03, "reading-hijacker-on-hijack-req": 0.03,
		"target-scheme-not-http": 0.1, "via-downstream-proxy-plain": 0.08, "skipped-connect-with-downstream-proxy": 0.01,
		"context-call-skip-then-api": 0.03, "context-call-api-then-skip": 0.03, "context-calls-split-across-group-members": 0.05, "client-offers-h2-to-h2-no-filter": 0.01},
}

func TestModifiers(t *testing.T) {
	kit.Assume("hijackers inside a MITM tunnel write nothing (what they are handed is C05's clause); after a skipped blind CONNECT nothing is sent through the connection")
	kit.Assume("connections of one case are driven one after another")
	propMods.Check(t, kit.N(800, 1000))
}

func TestReplay(t *testing.T) { kit.Replay(t, propMods) }
