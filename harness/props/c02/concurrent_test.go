package c02

import (
	"bufio"
	"fmt"
	"io"
	"net"
	"net/http"
	"sync"
	"testing"
	"time"

	"github.com/google/martian/v3"
	"pgregory.net/rapid"

	"verifharness/internal/kit"
	"verifharness/internal/netkit"
)

// ConcCase: several client connections send requests at the same time; every
// exchange must still have a context of its own (ID unique over all of them),
// shared by its two modifiers, in a session shared by its connection only.
type ConcCase struct {
	Conns   int `json:"conns"`
	PerConn int `json:"per_conn"`
}

type concProbe struct {
	mu    sync.Mutex
	reqID map[string]string // exchange -> context ID seen by the request modifier
	resID map[string]string
	sess  map[string]string // exchange -> session ID
}

func (p *concProbe) ModifyRequest(req *http.Request) error {
	ctx := martian.NewContext(req)
	if ctx == nil {
		return nil
	}
	p.mu.Lock()
	p.reqID[req.Header.Get("X-Verif-Id")] = ctx.ID()
	p.sess[req.Header.Get("X-Verif-Id")] = ctx.Session().ID()
	p.mu.Unlock()
	return nil
}

func (p *concProbe) ModifyResponse(res *http.Response) error {
	ctx := martian.NewContext(res.Request)
	if ctx == nil {
		return nil
	}
	p.mu.Lock()
	p.resID[res.Request.Header.Get("X-Verif-Id")] = ctx.ID()
	p.mu.Unlock()
	return nil
}

func runConc(c ConcCase) (v kit.Verdict) {
	T := kit.T()
	origin := netkit.NewOrigin(func(r *netkit.ReqLog) netkit.Script {
		id := r.Header.Get("X-Verif-Id")
		return netkit.Script{Raw: []byte(fmt.Sprintf("HTTP/1.1 200 OK\r\nContent-Length: %d\r\n\r\n%s", len(id), id)), CutAt: -1}
	})
	defer origin.Close()
	dialer := &netkit.Dialer{Route: func(string) string { return origin.Addr }}
	pb := &concProbe{reqID: map[string]string{}, resID: map[string]string{}, sess: map[string]string{}}
	p := martian.NewProxy()
	p.SetTimeout(60 * time.Second)
	p.SetDial(dialer.Dial)
	p.SetRequestModifier(pb)
	p.SetResponseModifier(pb)
	pr := netkit.Start(p, nil)
	defer pr.Stop(5 * time.Second)

	start := make(chan struct{})
	var wg sync.WaitGroup
	var emu sync.Mutex
	var firstErr string
	for ci := 0; ci < c.Conns; ci++ {
		wg.Add(1)
		go func(ci int) {
			defer wg.Done()
			conn, err := net.DialTimeout("tcp", pr.Addr, 5*time.Second)
			if err != nil {
				return
			}
			defer conn.Close()
			br := bufio.NewReader(conn)
			<-start
			for k := 0; k < c.PerConn; k++ {
				id := fmt.Sprintf("c%d-x%d", ci, k)
				conn.SetDeadline(time.Now().Add(3 * T))
				fmt.Fprintf(conn, "GET http://origin.test/%s HTTP/1.1\r\nHost: origin.test\r\nX-Verif-Id: %s\r\n\r\n", id, id)
				res, err := http.ReadResponse(br, nil)
				var body []byte
				if err == nil {
					body, err = io.ReadAll(res.Body)
				}
				if err != nil || res.StatusCode != 200 || string(body) != id {
					emu.Lock()
					if firstErr == "" {
						firstErr = fmt.Sprintf("exchange %s: %v (status %v, body %q)", id, err, res, body)
					}
					emu.Unlock()
					return
				}
			}
		}(ci)
	}
	close(start)
	wg.Wait()
	if firstErr != "" {
		v.Addf("C02/concurrent/exchange/not-served", "%s", firstErr)
	}
	pb.mu.Lock()
	defer pb.mu.Unlock()
	owner := map[string]string{}
	for ex, id := range pb.reqID {
		if other, dup := owner[id]; dup {
			v.Addf("C02/context/concurrent-connections/context-id-not-unique", "exchanges %s and %s (on connections served at the same time) share context ID %s", other, ex, id)
			break
		}
		owner[id] = ex
		if rid, ok := pb.resID[ex]; ok && rid != id {
			v.Addf("C02/context/concurrent-connections/context-differs-between-modifiers", "exchange %s: request modifier saw context %s, response modifier %s", ex, id, rid)
			break
		}
	}
	sessConn := map[string]string{}
	for ex, s := range pb.sess {
		conn := ex[:len(ex)-len(ex[indexByte(ex, '-'):])]
		if oc, ok := sessConn[s]; ok && oc != conn {
			v.Addf("C02/session/concurrent-connections/session-shared-across-connections", "connections %s and %s share session %s", oc, conn, s)
			break
		}
		sessConn[s] = conn
	}
	return v
}

func indexByte(s string, b byte) int {
	for i := 0; i < len(s); i++ {
		if s[i] == b {
			return i
		}
	}
	return len(s)
}

var propConc = &kit.Prop[ConcCase]{
	ID: "C02", Name: "concurrent-connections", Journal: true,
	Rule: "4..16 client connections each sending 10..60 requests at the same time through one proxy with probe modifiers; context IDs must be unique over all exchanges, the two modifiers of an exchange see the same context, sessions are per connection; also run under the race detector; non-trivial = always",
	Gen: func(t *rapid.T) ConcCase {
		return ConcCase{Conns: rapid.IntRange(4, 16).Draw(t, "conns"), PerConn: rapid.IntRange(10, 60).Draw(t, "per_conn")}
	},
	Run: runConc, NonTrivial: func(ConcCase) bool { return true },
}

func init() { kit.Register(propConc) }

func TestConcurrentConnections(t *testing.T) { propConc.Check(t, kit.N(40, 200)) }
