package c07

import (
	"bufio"
	"bytes"
)

func bufioReader(b []byte) *bufio.Reader { return bufio.NewReader(bytes.NewReader(b)) }
