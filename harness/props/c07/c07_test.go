// Package c07 decides property C07: shutdown completes in-flight exchanges,
// refuses new ones and closes everything.
package c07

import (
	"bufio"
	"bytes"
	"crypto/tls"
	"crypto/x509"
	"fmt"
	"github.com/google/martian/v3/mitm"
	"io"
	"net"
	"net/http"
	"strconv"
	"strings"
	"sync"
	"sync/atomic"
	"testing"
	"time"

	"github.com/google/martian/v3"
	"github.com/google/martian/v3/trafficshape"
	"pgregory.net/rapid"

	"verifharness/internal/kit"
	"verifharness/internal/netkit"
)

func TestMain(m *testing.M) { kit.Main(m, "C07") }

// Point is where a connection is parked when shutdown is requested.
//
//	idle-fresh      connected, nothing sent
//	idle-after      one exchange completed, then idle
//	head-fresh      part of a request head sent
//	head-after      one exchange completed, then part of a request head
//	head-pipelined  a complete request and part of the next head in one segment;
//	                the first is answered, the partial head sits in the proxy's buffer
//	uploading       the request head and half of its body were sent, the round
//	                trip is waiting for the rest of the body
//	reqmod          inside the request modifier
//	roundtrip       inside the upstream round trip
//	resmod          inside the response modifier
//	writing         response being written (client not reading a large body)
type Conn struct {
	Point string `json:"point"`
	// Size: body size of the response to the exchange in flight (0 = a few
	// bytes); responses beyond the 4096-byte write buffer leave the proxy in
	// several writes after shutdown was requested.
	Size int `json:"size,omitempty"`
	// Fail: the origin of the exchange in flight cannot be reached, so the
	// response the exchange receives is the proxy's own 502.
	Fail bool `json:"fail,omitempty"`
	// Connect (with Fail, point reqmod, no MITM): the exchange in flight is a
	// CONNECT to a target that cannot be dialled.
	Connect bool `json:"connect,omitempty"`
	// Skip (points reqmod, resmod): the request modifier asks for the round trip
	// to be skipped (ctx.SkipRoundTrip(), as proxyauth's 407 or an API forwarder
	// does); the response modifier supplies the body. With Connect and no MITM:
	// a CONNECT answered without a tunnel.
	Skip bool `json:"skip,omitempty"`
	// ReqBody > 0 (with Skip): the request in flight is a POST announcing a body of
	// this many bytes that nobody consumes. Withheld: the client has sent only the
	// first few bytes of it and, once it holds the final response (marked close),
	// sends no more and waits for the close it was told about. Otherwise the whole
	// body is on its way before shutdown is requested.
	ReqBody  int  `json:"req_body,omitempty"`
	Withheld bool `json:"withheld,omitempty"`
	// Huge: the response to the exchange in flight has 16 MiB and the client
	// takes it in slowly (64 KiB per millisecond): its tail is still in the
	// proxy's socket when the proxy closes the connection.
	Huge bool `json:"huge,omitempty"`
	// Pipelined: while the exchange is parked the client sends its next request
	// behind it (HTTP/1.1 pipelining); it is unread when the connection is closed.
	Pipelined bool `json:"pipelined,omitempty"`
	// Carry (point mitm-connect-reqmod): after the answer to its CONNECT the client
	// goes on with the TLS handshake anyway instead of waiting for the close.
	Carry bool `json:"carry,omitempty"`
	// Tunnel (points idle-after, reqmod, roundtrip, resmod; MITM configured): the
	// connection first opens a CONNECT tunnel and completes the TLS handshake in
	// it; the exchanges then happen inside the established decrypted session.
	Tunnel bool `json:"tunnel,omitempty"`
	// Answer: the exchange in flight has an answer that cannot have a body:
	// "head" (a HEAD request), "204", "304".
	Answer string `json:"answer,omitempty"`
}

// Case is 1..3 connections, the order in which parked exchanges are released
// and whether new connections are attempted during / after shutdown.
type Case struct {
	Conns     []Conn `json:"conns"`
	Release   []int  `json:"release"` // permutation of the indices of parked (in-flight) connections
	NewDuring bool   `json:"new_during"`
	NewAfter  bool   `json:"new_after"`
	// SlowClose: the listener hands out connections whose Close takes 30 ms, so
	// that "closed" and "handler finished" are distinguishable moments.
	SlowClose bool `json:"slow_close,omitempty"`
	// Shaped: the proxy is served on a trafficshape.Listener (no shapes configured).
	Shaped bool `json:"shaped,omitempty"`
	// RawListener: the proxy serves the bare *net.TCPListener (connections are
	// *net.TCPConn, as in cmd/proxy); "closed by the time Close() returned" is
	// then judged from the client side only.
	RawListener bool `json:"raw_listener,omitempty"`
	// TLSListener: the proxy serves tls.NewListener(...) (as cmd/proxy does for
	// -tls-address); clients handshake first. Extra points there: tls-no-hello
	// (connected, no ClientHello yet) and tls-half-hello (first bytes of one).
	TLSListener bool `json:"tls_listener,omitempty"`
	// ShortTimeout: SetTimeout(500 ms), and the exchanges stay parked for 800 ms
	// after shutdown was requested. An exchange that takes longer than the
	// timeout is not owed its response any more (its connection's deadline has
	// passed); Close() must still wait for its handler.
	ShortTimeout bool `json:"short_timeout,omitempty"`
	// SlowAddr: RemoteAddr() of an accepted connection takes 30 ms the first time
	// it is asked (legal for a net.Conn): Serve asks between Accept and the start
	// of the handler, so "accepted" and "handler running" are distinguishable.
	SlowAddr bool `json:"slow_addr,omitempty"`
	// ListenerClosedFirst: the owner of the listener closes it and Serve has
	// returned (no accept loop is running any more) before Close() is called.
	ListenerClosedFirst bool `json:"listener_closed_first,omitempty"`
}

// trackListener records when each accepted connection's Close has completed.
type trackListener struct {
	net.Listener
	delay  time.Duration
	mu     sync.Mutex
	closed map[string]bool // by remote address
	// accepted: handed out by Accept (recorded before Accept returns)
	accepted map[string]bool
	slowAddr time.Duration
	closes   int32 // calls of Close: the owner's, then the one Serve makes when it returns
}

func (l *trackListener) Close() error {
	atomic.AddInt32(&l.closes, 1)
	return l.Listener.Close()
}

func (l *trackListener) Accept() (net.Conn, error) {
	c, err := l.Listener.Accept()
	if err != nil {
		return nil, err
	}
	key := c.RemoteAddr().String()
	l.mu.Lock()
	l.accepted[key] = true
	l.mu.Unlock()
	return &trackConn{Conn: c, l: l, key: key}, nil
}

// snapshot returns, as of one moment, which connections had been closed and
// which had been handed out by Accept.
func (l *trackListener) snapshot() (closed, accepted map[string]bool) {
	l.mu.Lock()
	defer l.mu.Unlock()
	closed, accepted = map[string]bool{}, map[string]bool{}
	for k, v := range l.closed {
		closed[k] = v
	}
	for k, v := range l.accepted {
		accepted[k] = v
	}
	return closed, accepted
}

type trackConn struct {
	net.Conn
	l    *trackListener
	key  string
	once sync.Once
	addr sync.Once
}

func (c *trackConn) RemoteAddr() net.Addr {
	c.addr.Do(func() { time.Sleep(c.l.slowAddr) })
	return c.Conn.RemoteAddr()
}

// slowConn is a client connection that takes in at most 64 KiB per millisecond.
type slowConn struct{ net.Conn }

func (c slowConn) Read(b []byte) (int, error) {
	time.Sleep(time.Millisecond)
	if len(b) > 64<<10 {
		b = b[:64<<10]
	}
	return c.Conn.Read(b)
}

func (c *trackConn) Close() (err error) {
	c.once.Do(func() {
		time.Sleep(c.l.delay)
		err = c.Conn.Close()
		c.l.mu.Lock()
		c.l.closed[c.key] = true
		c.l.mu.Unlock()
	})
	return err
}

// Points of a MITM tunnel being set up (SetMITM configured):
//
//	mitm-connect-reqmod   the CONNECT is inside the request modifier
//	mitm-awaiting-hello   the CONNECT was answered 200, the client has not started its handshake
//
// For these the client carries on with the handshake when it is "released";
// nothing is demanded of the CONNECT's own answer, only that nothing hangs and
// the connection is closed.
//
//	mitm-idle-tunnel      as mitm-awaiting-hello, but the client stays silent: an idle connection
//	mitm-half-hello       the client has sent the first bytes of its ClientHello and stays silent
var inflight = map[string]bool{"reqmod": true, "roundtrip": true, "resmod": true, "writing": true, "uploading": true, "mitm-connect-reqmod": true, "mitm-awaiting-hello": true}

const bigBody = 32 << 20

type gates struct {
	mu      sync.Mutex
	clock   int64
	phase   map[string]string        // id -> phase at which to park
	arrived map[string]chan struct{} // closed when the exchange is parked
	release map[string]chan struct{} // closed to let it go on
	reqSeq  map[string]int64         // id -> time its request modifier started
	resSeen map[string]bool
}

func newGates() *gates {
	return &gates{phase: map[string]string{}, arrived: map[string]chan struct{}{}, release: map[string]chan struct{}{}, reqSeq: map[string]int64{}, resSeen: map[string]bool{}}
}

func (g *gates) add(id, phase string) {
	g.mu.Lock()
	g.phase[id] = phase
	g.arrived[id] = make(chan struct{})
	g.release[id] = make(chan struct{})
	g.mu.Unlock()
}

func (g *gates) park(id, phase string) {
	g.mu.Lock()
	want, arr, rel := g.phase[id], g.arrived[id], g.release[id]
	g.mu.Unlock()
	if want != phase || arr == nil {
		return
	}
	close(arr)
	<-rel
}

func (g *gates) tick() int64 { return atomic.AddInt64(&g.clock, 1) }

func (g *gates) ModifyRequest(req *http.Request) error {
	id := req.Header.Get("X-Verif-Id")
	g.mu.Lock()
	g.reqSeq[id] = g.tick()
	g.mu.Unlock()
	if req.Header.Get("X-Verif-Skip") == "1" {
		if ctx := martian.NewContext(req); ctx != nil {
			ctx.SkipRoundTrip()
		}
	}
	g.park(id, "reqmod")
	return nil
}

func (g *gates) ModifyResponse(res *http.Response) error {
	id := res.Request.Header.Get("X-Verif-Id")
	g.mu.Lock()
	g.resSeen[id] = true
	g.mu.Unlock()
	if res.Request.Header.Get("X-Verif-Skip") == "1" && res.Request.Method != "CONNECT" {
		b := bodyFor(id)
		res.Body = io.NopCloser(bytes.NewReader(b))
		res.ContentLength = int64(len(b))
	}
	g.park(id, "resmod")
	return nil
}

type gatedRT struct {
	g    *gates
	next http.RoundTripper
}

func (r gatedRT) RoundTrip(req *http.Request) (*http.Response, error) {
	r.g.park(req.Header.Get("X-Verif-Id"), "roundtrip")
	return r.next.RoundTrip(req)
}

// adapt turns an absolute-form GET of request() into the origin-form used inside a
// decrypted tunnel and/or into a HEAD request.
func adapt(req string, tunnel, head bool) string {
	if tunnel {
		req = strings.Replace(req, " http://origin.test/", " /", 1)
		req = strings.Replace(req, " http://down.test/", " /", 1)
	}
	if head && strings.HasPrefix(req, "GET ") {
		req = "HEAD " + req[4:]
	}
	return req
}

// wantAnswer is the status and body owed to the exchange with this id.
func wantAnswer(id string) (int, []byte) {
	switch {
	case strings.HasSuffix(id, "-a204"):
		return 204, nil
	case strings.HasSuffix(id, "-a304"):
		return 304, nil
	case strings.HasSuffix(id, "-ahead"):
		return 200, nil
	}
	return 200, bodyFor(id)
}

func request(id string) string {
	host := "origin.test"
	if strings.Contains(id, "-fail") {
		host = "down.test"
	}
	if strings.HasSuffix(id, "-cskip") {
		return fmt.Sprintf("CONNECT origin.test:443 HTTP/1.1\r\nHost: origin.test:443\r\nX-Verif-Id: %s\r\nX-Verif-Skip: 1\r\n\r\n", id)
	}
	if strings.HasSuffix(id, "-conn") {
		return fmt.Sprintf("CONNECT origin.test:443 HTTP/1.1\r\nHost: origin.test:443\r\nX-Verif-Id: %s\r\n\r\n", id)
	}
	if strings.Contains(id, "-skip") {
		return fmt.Sprintf("GET http://%s/%s HTTP/1.1\r\nHost: %s\r\nX-Verif-Id: %s\r\nX-Verif-Skip: 1\r\n\r\n", host, id, host, id)
	}
	if strings.HasSuffix(id, "-cfail") {
		return fmt.Sprintf("CONNECT down.test:443 HTTP/1.1\r\nHost: down.test:443\r\nX-Verif-Id: %s\r\n\r\n", id)
	}
	return fmt.Sprintf("GET http://%s/%s HTTP/1.1\r\nHost: %s\r\nX-Verif-Id: %s\r\n\r\n", host, id, host, id)
}

var (
	bigOnce sync.Once
	bigData []byte
)

func bodyFor(id string) []byte {
	if strings.HasPrefix(id, "big-") {
		// larger than what the socket buffers between origin and client absorb,
		// so the proxy is blocked writing it while the client does not read
		bigOnce.Do(func() { bigData = kit.Bytes(77, bigBody) })
		return bigData
	}
	if strings.Contains(id, "-huge") {
		bigOnce.Do(func() { bigData = kit.Bytes(77, bigBody) })
		return bigData[:16<<20]
	}
	if i := strings.LastIndex(id, "-s"); i > 0 {
		if n, err := strconv.Atoi(id[i+2:]); err == nil && n > 0 {
			return kit.Bytes(78, n)
		}
	}
	return []byte("BODY-" + id)
}

// A wait that expired is re-validated once with three times the bound before
// it counts. A signature confirmed that way (a hang that is there on this tree)
// is not waited for at full length again in this process: cost only, the
// verdict for such a case is the signature that was already confirmed.
var (
	confMu    sync.Mutex
	confirmed = map[string]bool{}
)

func patience(sig string, T time.Duration) time.Duration {
	confMu.Lock()
	defer confMu.Unlock()
	if confirmed[sig] {
		return T / 6
	}
	return T
}

// duringPause is how long the client waits between opening connections while
// Close() is held by an exchange in flight and releasing that exchange: the
// accept loop and the new connection's handler get this long to close it.
var duringPause = 300 * time.Millisecond

const whileCloseWaits = "accepted-while-close-waits-for-an-exchange"

func run(c Case) kit.Verdict {
	v := runOnce(c, kit.T())
	if kit.Shrinking() {
		return v
	}
	for _, f := range v {
		if !strings.Contains(f.Sig, whileCloseWaits) {
			continue
		}
		// "Close() was held by an exchange, the connection had all the time it
		// needed" is only as true as the scheduler is kind: a loaded machine can
		// keep the accept loop from running for the whole pause. The same case
		// with ten times the pause tells a connection that is never closed while
		// the shutdown lasts (the repaired defect) from one whose close lost a race
		// (the open finding about the accept loop, asserted under its own shape).
		old := duringPause
		duringPause = 10 * old
		v2 := runOnce(c, kit.T())
		duringPause = old
		again := false
		for _, f2 := range v2 {
			again = again || strings.Contains(f2.Sig, whileCloseWaits)
		}
		if !again {
			kit.Inconclusive("shutdown")
			var rest kit.Verdict
			for _, f1 := range v {
				if !strings.Contains(f1.Sig, whileCloseWaits) {
					rest = append(rest, f1)
				}
			}
			v = rest
		}
		break
	}
	fresh := false
	confMu.Lock()
	for _, f := range v {
		if strings.Contains(f.Sig, "timeout") && !confirmed[f.Sig] {
			fresh = true
		}
	}
	confMu.Unlock()
	if !fresh {
		return v
	}
	v2 := runOnce(c, 3*kit.T())
	if len(v2) == 0 {
		kit.Inconclusive("shutdown")
		return nil
	}
	confMu.Lock()
	for _, f := range v2 {
		if strings.Contains(f.Sig, "timeout") {
			confirmed[f.Sig] = true
		}
	}
	confMu.Unlock()
	return v2
}

type client struct {
	cl      *netkit.Client
	point   string
	id      string // id of the in-flight exchange, if any
	res     *netkit.Resp
	resErr  error
	resDone chan struct{}
	cn      Conn
	method  string
}

func runOnce(c Case, T time.Duration) (v kit.Verdict) {
	handler := func(r *netkit.ReqLog) netkit.Script {
		id := r.Header.Get("X-Verif-Id")
		b := bodyFor(id)
		head := fmt.Sprintf("HTTP/1.1 200 OK\r\nContent-Length: %d\r\nX-Origin-Id: %s\r\n\r\n", len(b), id)
		switch {
		case strings.HasSuffix(id, "-a204"):
			return netkit.Script{Raw: []byte("HTTP/1.1 204 No Content\r\nX-Origin-Id: " + id + "\r\n\r\n"), CutAt: -1}
		case strings.HasSuffix(id, "-a304"):
			return netkit.Script{Raw: []byte("HTTP/1.1 304 Not Modified\r\nETag: \"v1\"\r\nX-Origin-Id: " + id + "\r\n\r\n"), CutAt: -1}
		case r.Method == "HEAD":
			return netkit.Script{Raw: []byte(head), CutAt: -1}
		}
		return netkit.Script{Raw: append([]byte(head), b...), CutAt: -1}
	}
	var origin *netkit.Origin
	if c.TLSListener {
		// requests read from a TLS connection are forwarded over TLS
		origin = netkit.NewTLSOrigin(netkit.ServerTLS("origin.test"), handler)
	} else {
		origin = netkit.NewOrigin(handler)
	}
	defer origin.Close()
	needMITM := c.TLSListener
	needTunnel := false
	for _, cn := range c.Conns {
		if strings.HasPrefix(cn.Point, "mitm-") {
			needMITM = true
		}
		if cn.Tunnel && !c.TLSListener {
			needMITM, needTunnel = true, true
		}
	}
	// requests decrypted from a tunnel go upstream over TLS
	tlsOrigin := origin
	if needTunnel {
		tlsOrigin = netkit.NewTLSOrigin(netkit.ServerTLS("origin.test"), handler)
		defer tlsOrigin.Close()
	}
	dialer := &netkit.Dialer{Route: func(addr string) string {
		if strings.HasPrefix(addr, "down.test") {
			return ""
		}
		if needTunnel && strings.HasSuffix(addr, ":443") {
			return tlsOrigin.Addr
		}
		return origin.Addr
	}}
	var mc *mitm.Config
	var pool *x509.CertPool
	if needMITM {
		var err error
		if mc, pool, err = netkit.MITM(); err != nil {
			return kit.Failf("C07/harness/mitm", "%v", err)
		}
	}
	g := newGates()
	origin.Early = func(r *netkit.ReqLog) *netkit.Script {
		// the origin has the head of an upload whose body is still on its way
		id := r.Header.Get("X-Verif-Id")
		g.mu.Lock()
		arr := g.arrived[id]
		up := g.phase[id] == "uploading"
		g.mu.Unlock()
		if up && arr != nil {
			select {
			case <-arr:
			default:
				close(arr)
			}
		}
		return nil
	}
	p := martian.NewProxy()
	p.SetTimeout(60 * time.Second)
	if c.ShortTimeout {
		p.SetTimeout(500 * time.Millisecond)
	}
	if c.TLSListener || needTunnel {
		netkit.UpstreamTLS(p)
	}
	p.SetDial(dialer.Dial)
	if mc != nil && !c.TLSListener {
		p.SetMITM(mc)
	}
	p.SetRoundTripper(gatedRT{g, p.GetRoundTripper()})
	p.SetRequestModifier(g)
	p.SetResponseModifier(g)
	tl := &trackListener{closed: map[string]bool{}, accepted: map[string]bool{}}
	if c.SlowAddr {
		tl.slowAddr = 30 * time.Millisecond
	}
	if c.SlowClose {
		tl.delay = 30 * time.Millisecond
	}
	pr := netkit.Start(p, func(l net.Listener) net.Listener {
		tl.Listener = l
		if c.TLSListener {
			return tls.NewListener(tl, mc.TLS())
		}
		if c.RawListener {
			if c.Shaped {
				return trafficshape.NewListener(l)
			}
			return l
		}
		if c.Shaped {
			return trafficshape.NewListener(tl)
		}
		return tl
	})
	closed := make(chan struct{})
	var closedAtReturn, acceptedAtReturn map[string]bool
	closeStarted := false
	defer func() {
		// never leave parked goroutines behind
		g.mu.Lock()
		for id, ch := range g.release {
			select {
			case <-ch:
			default:
				close(ch)
			}
			_ = id
		}
		g.mu.Unlock()
		if !closeStarted {
			pr.Stop(2 * time.Second)
		}
	}()

	// ---- drive every connection to its parking point
	var clients []*client
	defer func() {
		for _, k := range clients {
			k.cl.Close()
		}
	}()
	for i, cn := range c.Conns {
		cl, err := netkit.Dial(pr.Addr)
		if err != nil {
			return kit.Failf("C07/harness/dial", "%v", err)
		}
		if cn.Huge {
			sc := slowConn{cl.Conn}
			cl = &netkit.Client{Conn: sc, BR: bufio.NewReaderSize(sc, 64<<10)}
		}
		if c.TLSListener && !strings.HasPrefix(cn.Point, "tls-") {
			tc := tls.Client(cl.Conn, &tls.Config{RootCAs: pool, ServerName: "origin.test"})
			tc.SetDeadline(time.Now().Add(T))
			if err := tc.Handshake(); err != nil {
				cl.Close()
				return kit.Failf("C07/harness/tls-handshake-failed-timeout", "connection %d: %v", i, err)
			}
			tc.SetDeadline(time.Time{})
			cl = &netkit.Client{Conn: tc, BR: bufio.NewReaderSize(tc, 64<<10)}
		}
		tunnel := cn.Tunnel && needTunnel
		if tunnel {
			cl.Write([]byte(fmt.Sprintf("CONNECT secure.test:443 HTTP/1.1\r\nHost: secure.test:443\r\nX-Verif-Id: tun-%d\r\n\r\n", i)))
			if res, _, err := cl.ReadResponse("CONNECT", T); err != nil || res.Status != 200 {
				cl.Close()
				return kit.Failf("C07/harness/connect-not-answered-timeout", "connection %d: %v %+v", i, err, res)
			}
			tc := tls.Client(cl.Conn, &tls.Config{RootCAs: pool, ServerName: "secure.test"})
			tc.SetDeadline(time.Now().Add(T))
			if err := tc.Handshake(); err != nil {
				cl.Close()
				return kit.Failf("C07/harness/tls-handshake-failed-timeout", "connection %d (inside its tunnel): %v", i, err)
			}
			tc.SetDeadline(time.Time{})
			cl = &netkit.Client{Conn: tc, BR: bufio.NewReaderSize(tc, 64<<10)}
		}
		k := &client{cl: cl, point: cn.Point, resDone: make(chan struct{}), cn: cn, method: "GET"}
		clients = append(clients, k)
		if strings.HasSuffix(cn.Point, "-after") {
			id := fmt.Sprintf("warm-%d", i)
			cl.Write([]byte(adapt(request(id), tunnel, false)))
			res, _, err := cl.ReadResponse("GET", T)
			if err != nil || res.Status != 200 || !bytes.Equal(res.Body, bodyFor(id)) {
				return kit.Failf("C07/harness/warm-up-exchange-failed-timeout", "connection %d: %v %+v", i, err, res)
			}
		}
		switch {
		case cn.Point == "head-pipelined":
			id := fmt.Sprintf("warm-%d", i)
			cl.Write([]byte(request(id) + "GET http://origin.test/partial HTTP/1.1\r\nHost: origin.te"))
			res, _, err := cl.ReadResponse("GET", T)
			if err != nil || res.Status != 200 || !bytes.Equal(res.Body, bodyFor(id)) {
				return kit.Failf("C07/harness/warm-up-exchange-failed-timeout", "connection %d: %v %+v", i, err, res)
			}
		case cn.Point == "uploading":
			k.id = fmt.Sprintf("up-%d", i)
			if cn.Size > 0 {
				k.id = fmt.Sprintf("up-%d-s%d", i, cn.Size)
			}
			g.add(k.id, "uploading")
			cl.Write([]byte(fmt.Sprintf("POST http://origin.test/%s HTTP/1.1\r\nHost: origin.test\r\nX-Verif-Id: %s\r\nContent-Length: %d\r\n\r\n%s", k.id, k.id, len(uploadBody), uploadBody[:len(uploadBody)/2])))
			select {
			case <-g.arrived[k.id]:
			case <-time.After(T):
				return kit.Failf("C07/harness/exchange-not-parked-timeout", "connection %d: the origin never saw the head of the upload", i)
			}
		case cn.Point == "tls-half-hello":
			cl.Write([]byte{0x16, 0x03, 0x01})
		case cn.Point == "mitm-connect-reqmod":
			k.id = fmt.Sprintf("cx%d", i)
			g.add(k.id, "reqmod")
			cl.Write([]byte("CONNECT secure.test:443 HTTP/1.1\r\nHost: secure.test:443\r\nX-Verif-Id: " + k.id + "\r\n\r\n"))
			select {
			case <-g.arrived[k.id]:
			case <-time.After(T):
				return kit.Failf("C07/harness/exchange-not-parked-timeout", "connection %d: the CONNECT never reached the request modifier", i)
			}
		case cn.Point == "mitm-awaiting-hello" || cn.Point == "mitm-idle-tunnel" || cn.Point == "mitm-half-hello":
			k.id = fmt.Sprintf("cy%d", i)
			cl.Write([]byte("CONNECT secure.test:443 HTTP/1.1\r\nHost: secure.test:443\r\nX-Verif-Id: " + k.id + "\r\n\r\n"))
			if res, _, err := cl.ReadResponse("CONNECT", T); err != nil || res.Status != 200 {
				return kit.Failf("C07/harness/connect-not-answered-timeout", "connection %d: %v %+v", i, err, res)
			}
			if cn.Point == "mitm-half-hello" {
				cl.Write([]byte{0x16, 0x03, 0x01})
			}
		case strings.HasPrefix(cn.Point, "head-"):
			cl.Write([]byte("GET http://origin.test/partial HTTP/1.1\r\nHost: origin.te"))
		case inflight[cn.Point]:
			k.id = fmt.Sprintf("x%d", i)
			skip := cn.Skip && (cn.Point == "reqmod" || cn.Point == "resmod")
			if skip {
				k.id += "-skip"
			}
			if cn.Huge {
				k.id += "-huge"
			} else if cn.Size > 0 {
				k.id += fmt.Sprintf("-s%d", cn.Size)
			}
			if cn.Fail && (cn.Point == "reqmod" || cn.Point == "roundtrip" || cn.Point == "resmod") {
				k.id = fmt.Sprintf("x%d-fail", i)
				if cn.Connect && cn.Point != "roundtrip" && !needMITM {
					k.id = fmt.Sprintf("x%d-cfail", i)
					k.method = "CONNECT"
				}
			} else if cn.Connect && !needMITM {
				switch {
				case skip:
					k.id, k.method = fmt.Sprintf("x%d-cskip", i), "CONNECT"
				case cn.Point == "reqmod" || cn.Point == "resmod":
					k.id, k.method = fmt.Sprintf("x%d-conn", i), "CONNECT"
				}
			}
			if k.method == "GET" && !cn.Fail && !skip && !cn.Huge && cn.Point != "writing" {
				switch cn.Answer {
				case "head":
					k.id, k.method = fmt.Sprintf("x%d-ahead", i), "HEAD"
				case "204", "304":
					k.id = fmt.Sprintf("x%d-a%s", i, cn.Answer)
				}
			}
			if cn.Point == "writing" {
				k.id = fmt.Sprintf("big-%d", i)
				g.add(k.id, "never")
			} else {
				g.add(k.id, cn.Point)
			}
			if skip && cn.ReqBody > 0 && k.method == "GET" {
				k.method = "POST"
				body := kit.Bytes(80, cn.ReqBody)
				if cn.Withheld {
					body = body[:min(26, len(body))]
				}
				cl.Write(append([]byte(fmt.Sprintf("POST http://origin.test/%s HTTP/1.1\r\nHost: origin.test\r\nX-Verif-Id: %s\r\nX-Verif-Skip: 1\r\nContent-Length: %d\r\n\r\n", k.id, k.id, cn.ReqBody)), body...))
			} else {
				cl.Write([]byte(adapt(request(k.id), tunnel, k.method == "HEAD")))
			}
			if cn.Point == "writing" {
				// parked = the head is on the wire and the client is not reading the body
				cl.Conn.SetReadDeadline(time.Now().Add(T))
				if _, err := cl.BR.Peek(1); err != nil {
					return kit.Failf("C07/harness/big-response-not-started-timeout", "connection %d: %v", i, err)
				}
			} else {
				select {
				case <-g.arrived[k.id]:
				case <-time.After(T):
					return kit.Failf("C07/harness/exchange-not-parked-timeout", "connection %d never reached %s", i, cn.Point)
				}
				if cn.Pipelined && k.method != "CONNECT" {
					cl.Write([]byte(request(fmt.Sprintf("pipe-%d", i))))
				}
			}
		}
	}
	// give fresh idle connections' handlers a moment (their start cannot be observed)
	time.Sleep(5 * time.Millisecond)

	// ---- request shutdown
	if c.ListenerClosedFirst && !c.RawListener && !c.Shaped {
		pr.L.Close()
		// Serve closes its listener (again) on the way out
		if !kit.Eventually(3*T, func() bool { return atomic.LoadInt32(&tl.closes) >= 2 }) {
			return kit.Failf("C07/harness/serve-did-not-return-timeout", "the listener was closed; Serve has not returned")
		}
		time.Sleep(2 * time.Millisecond)
	}
	closeStarted = true
	go func() {
		p.Close()
		closedAtReturn, acceptedAtReturn = tl.snapshot()
		close(closed)
	}()
	returnedOpen := false
	kit.Eventually(T, func() bool {
		if p.Closing() {
			return true
		}
		select {
		case <-closed:
			// Close() has returned: the closing state was entered before, or never
			returnedOpen = !p.Closing()
			return true
		default:
			return false
		}
	})
	if returnedOpen {
		return kit.Failf("C07/shutdown/any/close-returned-without-shutting-down", "Close() returned and the proxy is not in the closing state: %d connection(s) were open, nothing was closed", len(clients))
	}
	if !p.Closing() {
		return kit.Failf("C07/shutdown/any/timeout-closing-state-not-entered", "Closing() still false %v after Close was called", T)
	}
	closeReq := g.tick()
	_ = closeReq

	var newConns []*netkit.Client
	tryNew := func(label string) {
		cl, err := netkit.Dial(pr.Addr)
		if err != nil {
			return // refused: fine
		}
		cl.Write([]byte(request("new-" + label)))
		newConns = append(newConns, cl)
	}
	defer func() {
		for _, cl := range newConns {
			cl.Close()
		}
	}()
	if c.NewDuring {
		tryNew("during-1")
		tryNew("during-2")
		if len(c.Release) > 0 && !c.SlowClose && !c.ShortTimeout {
			time.Sleep(duringPause)
		}
	}

	if c.ShortTimeout {
		time.Sleep(800 * time.Millisecond)
	}
	// ---- release parked exchanges in the drawn order
	parkedLeft := 0
	for _, k := range clients {
		if inflight[k.point] {
			parkedLeft++
		}
	}
	for _, idx := range c.Release {
		k := clients[idx]
		select {
		case <-closed:
			if k.point == "mitm-awaiting-hello" {
				// (its CONNECT has been answered: an idle connection, which shutdown
				// closes; the client finds that out when it goes on)
				break
			}
			v.Addf("C07/shutdown/"+k.point+"/close-returned-with-exchange-in-flight", "Close() returned while the exchange on connection %d was still parked at %s", idx, k.point)
		default:
		}
		if strings.HasPrefix(k.point, "mitm-") {
			// the tunnel that was being set up when shutdown began: the client carries on
			pre := "C07/tunnel-setup/" + k.point + "/"
			if k.point == "mitm-connect-reqmod" {
				g.mu.Lock()
				close(g.release[k.id])
				g.mu.Unlock()
				res, _, err := k.cl.ReadResponse("CONNECT", T)
				if err != nil && netkit.IsTimeout(err) {
					v.Addf(pre+"timeout-connect-neither-answered-nor-closed", "connection %d: the CONNECT parked in the request modifier at shutdown was neither answered nor closed within %v of its release: %v", idx, T, err)
					parkedLeft--
					continue
				}
				// the CONNECT is an exchange whose request modifier had started: its
				// answer is the last response on this connection
				if err == nil && !res.Close {
					v.Addf(pre+"response-not-marked-close", "connection %d: the CONNECT was inside the request modifier when shutdown was requested; its answer (%d) carries no Connection: close", idx, res.Status)
				}
				if !k.cn.Carry {
					sig := pre + "timeout-connection-not-closed-after-response"
					if _, eof, eerr := k.cl.ExpectEOF(patience(sig, T)); !eof {
						v.Addf(sig, "connection %d: the CONNECT in flight at shutdown was answered, the client waits for the close: connection still open (%v)", idx, eerr)
						k.cl.Close()
					}
					parkedLeft--
					continue
				}
			}
			tc := tls.Client(k.cl.Conn, &tls.Config{RootCAs: pool, ServerName: "secure.test"})
			tc.SetDeadline(time.Now().Add(T))
			herr := tc.Handshake()
			if herr == nil {
				// a request inside the tunnel may or may not be answered any more (its
				// connection was accepted before shutdown began); either way the
				// connection must be closed
				tc.Write([]byte("GET /late HTTP/1.1\r\nHost: secure.test\r\nX-Verif-Id: late-in-tunnel\r\n\r\n"))
				_, herr = io.Copy(io.Discard, tc)
			}
			if netkit.IsTimeout(herr) {
				v.Addf(pre+"timeout-connection-not-closed", "connection %d: the client went on with its TLS handshake inside the tunnel after shutdown began; %v later the connection is still open and nothing was answered: %v", idx, T, herr)
			}
			parkedLeft--
			continue
		}
		if k.point == "uploading" {
			k.cl.Write([]byte(uploadBody[len(uploadBody)/2:]))
		} else if k.point != "writing" {
			g.mu.Lock()
			close(g.release[k.id])
			g.mu.Unlock()
		}
		if strings.HasSuffix(k.id, "-conn") {
			// the answer to a CONNECT whose target can be dialled: only its head is
			// read (behind a 200 comes the tunnel)
			pre := "C07/connect-to-reachable-target/" + k.point + "/"
			closeSig := pre + "timeout-connection-not-closed-after-response"
			k.cl.Conn.SetReadDeadline(time.Now().Add(T))
			hres, err := http.ReadResponse(k.cl.BR, &http.Request{Method: "CONNECT"})
			switch {
			case err != nil:
				class := "response-missing-or-truncated"
				if netkit.IsTimeout(err) {
					class = "timeout-response"
				}
				v.Addf(pre+class, "connection %d: the CONNECT parked at %s when shutdown was requested got no answer: %v", idx, k.point, err)
			case hres.StatusCode != 200 && hres.StatusCode/100 != 5:
				// (200 and then nothing, or a refusal: the statement does not say which)
				v.Addf(pre+"wrong-response", "connection %d (%s): status %d", idx, k.point, hres.StatusCode)
			case k.point == "reqmod":
				// nothing had been dialled when shutdown began
				if !hres.Close {
					v.Addf(pre+"response-not-marked-close", "connection %d (%s): the answer (%d) completed during shutdown carries no Connection: close", idx, k.point, hres.StatusCode)
				}
				if _, eof, eerr := k.cl.ExpectEOF(patience(closeSig, T)); !eof {
					v.Addf(closeSig, "connection %d (%s): the CONNECT in flight at shutdown was answered %d and the connection then stays open: %v", idx, k.point, hres.StatusCode, eerr)
				}
			default:
				// (parked in the response modifier the tunnel's upstream connection
				// existed before shutdown began; what becomes of such a tunnel is not
				// demanded here: the client hangs up)
			}
			k.cl.Close()
			parkedLeft--
			continue
		}
		method := k.method
		if k.point == "uploading" {
			method = "POST"
		}
		rb := T
		if strings.HasSuffix(k.id, "-conn") {
			rb = patience("C07/connect-to-reachable-target/"+k.point+"/timeout-connection-not-closed-after-response", T)
		}
		res, _, err := k.cl.ReadResponse(method, rb)
		k.res, k.resErr = res, err
		if c.ShortTimeout {
			parkedLeft--
			continue // (the exchange outlived the connection's deadline)
		}
		pre := "C07/exchange/" + k.point + "/"
		if strings.HasSuffix(k.id, "-fail") {
			pre = "C07/exchange-with-failing-round-trip/" + k.point + "/"
		}
		if strings.HasSuffix(k.id, "-cfail") {
			pre = "C07/connect-to-unreachable-target/" + k.point + "/"
		}
		if c.Shaped {
			pre = "C07/exchange-on-shaped-listener/" + k.point + "/"
		}
		switch {
		case k.cn.Answer != "" && strings.Contains(k.id, "-a"):
			pre = "C07/exchange-with-header-only-answer/" + k.point + "/"
		case k.cn.Tunnel && needTunnel:
			pre = "C07/exchange-inside-mitm-session/" + k.point + "/"
		case strings.HasSuffix(k.id, "-cskip"):
			pre = "C07/connect-with-skipped-round-trip/" + k.point + "/"
		case strings.HasSuffix(k.id, "-conn"):
			pre = "C07/connect-to-reachable-target/" + k.point + "/"
		case method == "POST" && k.cn.Withheld:
			pre = "C07/exchange-with-rest-of-request-body-never-sent/" + k.point + "/"
		case method == "POST" && k.point != "uploading":
			pre = "C07/exchange-with-unconsumed-request-body/" + k.point + "/"
		case k.cn.Pipelined && method != "CONNECT" && k.point != "writing":
			pre = "C07/exchange-with-next-request-pipelined/" + k.point + "/"
		case strings.Contains(k.id, "-skip"):
			pre = "C07/exchange-with-skipped-round-trip/" + k.point + "/"
		}
		switch {
		case err != nil:
			class := "response-missing-or-truncated"
			if netkit.IsTimeout(err) {
				class = "timeout-response"
			}
			v.Addf(pre+class, "connection %d, parked at %s when shutdown was requested: %v", idx, k.point, err)
		case res.BodyErr != nil && strings.HasSuffix(k.id, "-conn") && res.Status == 200 && netkit.IsTimeout(res.BodyErr):
			// (a 200 to CONNECT is followed by the tunnel: nothing ends it)
			v.Addf(pre+"timeout-connection-not-closed-after-response", "connection %d (%s): the CONNECT in flight at shutdown was answered 200 (Connection: close=%v) and the connection then stays open as a tunnel: %v", idx, k.point, res.Close, res.BodyErr)
			k.cl.Close()
		case res.BodyErr != nil:
			class := "response-missing-or-truncated"
			if netkit.IsTimeout(res.BodyErr) {
				class = "timeout-response-body"
			}
			v.Addf(pre+class, "connection %d (%s): body ended after %d of %d bytes: %v", idx, k.point, len(res.Body), len(bodyFor(k.id)), res.BodyErr)
		default:
			if strings.HasSuffix(k.id, "-fail") || strings.HasSuffix(k.id, "-cfail") {
				if res.Status != 502 {
					v.Addf(pre+"wrong-response", "connection %d (%s): the origin is unreachable, status %d", idx, k.point, res.Status)
				}
			} else if strings.HasSuffix(k.id, "-conn") {
				// (200 and then nothing, or a refusal: the statement does not say which)
				if res.Status != 200 && res.Status/100 != 5 {
					v.Addf(pre+"wrong-response", "connection %d (%s): status %d", idx, k.point, res.Status)
				}
			} else if strings.HasSuffix(k.id, "-cskip") {
				if res.Status != 200 {
					v.Addf(pre+"wrong-response", "connection %d (%s): status %d", idx, k.point, res.Status)
				}
			} else if ws, wb := wantAnswer(k.id); res.Status != ws || !bytes.Equal(res.Body, wb) {
				v.Addf(pre+"wrong-response", "connection %d (%s): status %d (want %d), body %s", idx, k.point, res.Status, ws, kit.Diff(wb, res.Body))
			}
			if k.point != "writing" && !res.Close {
				v.Addf(pre+"response-not-marked-close", "connection %d (%s): the response completed during shutdown carries no Connection: close", idx, k.point)
			}
			if stray, eof, err := k.cl.ExpectEOF(patience(pre+"timeout-connection-not-closed-after-response", T)); !eof || len(stray) > 0 {
				class := "connection-not-closed-after-response"
				if netkit.IsTimeout(err) {
					class = "timeout-connection-not-closed-after-response"
				}
				v.Addf(pre+class, "connection %d (%s): after the response: %d stray bytes, eof=%v (%v)", idx, k.point, len(stray), eof, err)
				if k.cn.Withheld || strings.HasSuffix(k.id, "-conn") {
					// the client gives up waiting and hangs up
					k.cl.Close()
				}
			}
		}
		parkedLeft--
	}

	// ---- Close must now return
	hangShape := "any"
	for _, cn := range c.Conns {
		if cn.Point == "mitm-idle-tunnel" || cn.Point == "mitm-half-hello" {
			hangShape = "mitm-tunnel-awaiting-client-bytes"
		}
	}
	hangSig := "C07/shutdown/" + hangShape + "/timeout-close-not-returning"
	select {
	case <-closed:
	case <-time.After(patience(hangSig, T)):
		v.Addf(hangSig, "all parked exchanges were released but Close() did not return within %v", T)
		return v
	}
	closeRet := g.tick()
	if c.NewAfter {
		tryNew("after")
	}
	// Every connection whose handler had demonstrably started before shutdown
	// was requested must have been closed by the moment Close() returned.
	for i, k := range clients {
		if !(inflight[k.point] || strings.HasSuffix(k.point, "-after") || k.point == "head-pipelined") {
			continue
		}
		if !c.RawListener && !closedAtReturn[k.cl.Conn.LocalAddr().String()] {
			v.Addf("C07/shutdown/"+k.point+"/close-returned-before-connection-closed", "Close() returned while connection %d (%s, served by a running handler before shutdown) had not been closed yet", i, k.point)
		}
	}

	// Every connection the listener had handed out by the time Close() returned
	// is closed by then, whether or not its handler had started.
	if !c.RawListener {
		mine := map[string]string{}
		for _, k := range clients {
			mine[k.cl.Conn.LocalAddr().String()] = k.point
		}
		for key := range acceptedAtReturn {
			if closedAtReturn[key] {
				continue
			}
			if pt, ok := mine[key]; ok {
				if !(inflight[pt] || strings.HasSuffix(pt, "-after") || pt == "head-pipelined") {
					v.Addf("C07/shutdown/"+pt+"/close-returned-before-connection-closed", "Close() returned while a connection at %s, handed out by Accept before, had not been closed yet", pt)
				}
				continue
			}
			// while Close() is held by an exchange in flight the new connection has
			// all the time it needs; otherwise it races with the return of Close()
			shape := "accepted-around-the-return-of-close"
			if len(c.Release) > 0 && !c.SlowClose && !c.ShortTimeout {
				shape = "accepted-while-close-waits-for-an-exchange"
			}
			v.Addf("C07/new-connection/"+shape+"/close-returned-before-connection-closed", "Close() returned while a connection that Accept had handed out after shutdown began (and before Close() returned) had not been closed yet")
		}
	}

	// idle / mid-head connections: closed, nothing served
	for i, k := range clients {
		if inflight[k.point] {
			continue
		}
		stray, eof, err := k.cl.ExpectEOF(T)
		if len(stray) > 0 {
			v.Addf("C07/idle/"+k.point+"/bytes-served-on-idle-connection", "connection %d (%s) received %q", i, k.point, trunc(stray, 80))
		}
		if !eof {
			class := "not-closed-after-shutdown"
			if netkit.IsTimeout(err) {
				class = "timeout-not-closed-after-shutdown"
			}
			v.Addf("C07/idle/"+k.point+"/"+class, "connection %d (%s) still open %v after Close() returned (%v)", i, k.point, T, err)
		}
	}
	for i, cl := range newConns {
		stray, eof, err := cl.ExpectEOF(T)
		if len(stray) > 0 {
			v.Addf("C07/new-connection/any/served-after-shutdown-began", "new connection %d received %q", i, trunc(stray, 80))
		}
		if !eof {
			class := "not-closed"
			if netkit.IsTimeout(err) {
				class = "timeout-not-closed"
			}
			v.Addf("C07/new-connection/any/"+class, "new connection %d still open %v after Close() returned (%v)", i, T, err)
		}
	}
	// no request modifier starts after Close returned (give stragglers a moment to show up)
	time.Sleep(20 * time.Millisecond)
	g.mu.Lock()
	for id, seq := range g.reqSeq {
		if seq > closeRet {
			v.Addf("C07/shutdown/any/request-modifier-started-after-close-returned", "request modifier for %q started after Close() had returned", id)
		}
		if strings.HasPrefix(id, "new-") || id == "" {
			if seq > closeReq {
				v.Addf("C07/new-connection/any/request-served-after-shutdown-began", "request %q of a connection opened after shutdown began reached the request modifier", id)
			}
		}
	}
	g.mu.Unlock()
	return v
}

func trunc(b []byte, n int) []byte {
	if len(b) > n {
		return b[:n]
	}
	return b
}

var _ = io.EOF

// ---------------------------------------------------------------- generator

var points = []string{"idle-fresh", "idle-after", "head-fresh", "head-after", "head-pipelined", "reqmod", "roundtrip", "uploading", "resmod", "writing"}

var uploadBody = string(kit.Text(5, 3000))

func finish(c *Case, perm func(n int) []int) {
	var parked []int
	for i, cn := range c.Conns {
		if inflight[cn.Point] {
			parked = append(parked, i)
		}
	}
	order := perm(len(parked))
	c.Release = nil
	for _, o := range order {
		c.Release = append(c.Release, parked[o])
	}
}

func genCase(t *rapid.T) Case {
	n := rapid.IntRange(1, 3).Draw(t, "conns")
	var c Case
	big := 0
	for i := 0; i < n; i++ {
		pt := rapid.SampledFrom([]string{"idle-fresh", "idle-after", "head-fresh", "head-after", "head-pipelined", "reqmod", "reqmod", "roundtrip", "roundtrip", "uploading", "uploading", "resmod", "resmod", "writing"}).Draw(t, "point")
		if pt == "writing" {
			big++
			if big > 1 {
				pt = "resmod"
			}
		}
		cn := Conn{Point: pt}
		if rapid.IntRange(0, 7).Draw(t, "mitm_setup") == 0 {
			cn.Point = rapid.SampledFrom([]string{"mitm-connect-reqmod", "mitm-connect-reqmod", "mitm-awaiting-hello", "mitm-idle-tunnel", "mitm-half-hello"}).Draw(t, "mitm_point")
			pt = cn.Point
			cn.Carry = pt == "mitm-connect-reqmod" && rapid.Bool().Draw(t, "carry")
		}
		if inflight[pt] && pt != "writing" && !strings.HasPrefix(pt, "mitm-") {
			cn.Size = rapid.SampledFrom([]int{0, 0, 4000, 5000, 70000, 300000}).Draw(t, "size")
			if (pt == "reqmod" || pt == "roundtrip") && rapid.IntRange(0, 3).Draw(t, "fail") == 0 {
				cn.Fail, cn.Size = true, 0
				cn.Connect = pt == "reqmod" && rapid.Bool().Draw(t, "connect_fail")
			} else if pt == "resmod" && rapid.IntRange(0, 7).Draw(t, "fail_resmod") == 0 {
				// the round trip (or the CONNECT) has failed; its 502 is inside the response modifier
				cn.Fail, cn.Size = true, 0
				cn.Connect = rapid.Bool().Draw(t, "connect_fail")
			}
			if (pt == "reqmod" || pt == "resmod") && !cn.Fail {
				switch rapid.SampledFrom([]string{"", "", "", "", "", "", "skip", "skip-connect", "connect", "unread-body", "unread-body-huge", "withheld-body", "huge-pipelined", "huge"}).Draw(t, "variant") {
				case "skip":
					cn.Skip = true
				case "skip-connect":
					cn.Skip, cn.Connect, cn.Size = true, true, 0
				case "connect":
					if pt == "reqmod" {
						cn.Connect, cn.Size = true, 0
					}
				case "unread-body":
					cn.Skip, cn.ReqBody = true, rapid.SampledFrom([]int{3000, 98304}).Draw(t, "req_body")
				case "unread-body-huge":
					cn.Skip, cn.ReqBody, cn.Huge, cn.Size = true, 98304, true, 0
				case "withheld-body":
					cn.Skip, cn.ReqBody, cn.Withheld = true, 100000, true
				case "huge-pipelined":
					cn.Huge, cn.Pipelined, cn.Size = true, true, 0
				case "huge":
					cn.Huge, cn.Size = true, 0
				}
			}
			if !cn.Fail && !cn.Skip && !cn.Connect && !cn.Huge && rapid.IntRange(0, 5).Draw(t, "header_only") == 0 {
				cn.Answer, cn.Size = rapid.SampledFrom([]string{"head", "204", "304"}).Draw(t, "answer"), 0
			}
		}
		switch cn.Point {
		case "idle-after", "reqmod", "roundtrip", "resmod":
			cn.Tunnel = rapid.IntRange(0, 5).Draw(t, "tunnel") == 0
		}
		c.Conns = append(c.Conns, cn)
	}
	c.SlowClose = rapid.Bool().Draw(t, "slow_close")
	if rapid.IntRange(0, 2).Draw(t, "raw_listener") == 0 {
		c.RawListener, c.SlowClose = true, false
	}
	if !c.RawListener && rapid.IntRange(0, 4).Draw(t, "slow_addr") == 0 {
		c.SlowAddr = true
	}
	c.Shaped = rapid.IntRange(0, 3).Draw(t, "shaped") == 0
	if !c.Shaped && rapid.IntRange(0, 5).Draw(t, "tls_listener") == 0 {
		// a TLS listener: no CONNECT tunnels (the listener already decrypts), and
		// some connections have not finished their handshake when shutdown comes
		c.TLSListener, c.RawListener = true, false
		for i := range c.Conns {
			switch {
			case strings.HasPrefix(c.Conns[i].Point, "mitm-"):
				c.Conns[i].Point = "tls-no-hello"
			case c.Conns[i].Point == "idle-fresh" || c.Conns[i].Point == "head-fresh":
				c.Conns[i].Point = rapid.SampledFrom([]string{"tls-no-hello", "tls-half-hello", "idle-fresh"}).Draw(t, "tls_point")
			}
		}
	}
	if !c.TLSListener && rapid.IntRange(0, 11).Draw(t, "short_timeout") == 0 {
		c.ShortTimeout = true
		for i := range c.Conns {
			// only points whose park does not depend on the client connection
			switch c.Conns[i].Point {
			case "reqmod", "roundtrip", "resmod":
			default:
				c.Conns[i] = Conn{Point: "reqmod"}
			}
		}
	}
	if !c.RawListener && !c.Shaped && rapid.IntRange(0, 5).Draw(t, "listener_closed_first") == 0 {
		c.ListenerClosedFirst = true
	}
	normalize(&c)
	c.NewDuring = rapid.Bool().Draw(t, "new_during")
	c.NewAfter = rapid.Bool().Draw(t, "new_after")
	finish(&c, func(k int) []int {
		if k == 0 {
			return nil
		}
		return rapid.Permutation(seq(k)).Draw(t, "release")
	})
	return c
}

// normalize drops options that do not apply to the listener / MITM set-up of the case.
func normalize(c *Case) {
	mitmCase := c.TLSListener
	for _, cn := range c.Conns {
		if strings.HasPrefix(cn.Point, "mitm-") {
			mitmCase = true
		}
	}
	for i := range c.Conns {
		cn := &c.Conns[i]
		if cn.Tunnel {
			if c.TLSListener {
				cn.Tunnel = false
			} else {
				// (inside the session: ordinary exchanges, possibly failing or header-only)
				mitmCase = true
				cn.Connect, cn.Skip, cn.ReqBody, cn.Withheld, cn.Huge, cn.Pipelined = false, false, 0, false, false, false
			}
		}
	}
	for i := range c.Conns {
		cn := &c.Conns[i]
		if mitmCase && cn.Connect {
			// (with MITM configured a CONNECT is never a blind tunnel)
			cn.Connect = false
			if !cn.Fail {
				cn.Skip = false
			}
		}
		if c.Shaped || c.TLSListener {
			// (the slow reader and the unread input are about the TCP connection itself)
			if cn.Huge || cn.Pipelined {
				cn.Huge, cn.Pipelined = false, false
			}
		}
	}
}

func seq(n int) []int {
	out := make([]int, n)
	for i := range out {
		out[i] = i
	}
	return out
}

func nontrivial(c Case) bool {
	kinds := map[string]bool{}
	for _, cn := range c.Conns {
		if inflight[cn.Point] {
			return true
		}
		kinds[cn.Point] = true
	}
	return len(kinds) >= 2
}

func classes(c Case) []string {
	set := map[string]bool{}
	for _, cn := range c.Conns {
		set["point-"+cn.Point] = true
	}
	if len(c.Release) >= 2 {
		set["two-or-more-in-flight"] = true
	}
	if c.NewDuring {
		set["new-connection-during-shutdown"] = true
	}
	if c.SlowClose {
		set["slow-closing-connections"] = true
	}
	if c.Shaped {
		set["traffic-shaped-listener"] = true
	}
	if c.RawListener {
		set["bare-tcp-listener"] = true
	}
	if c.TLSListener {
		set["tls-listener"] = true
	}
	if c.SlowAddr {
		set["handler-starts-late-after-accept"] = true
	}
	if c.ListenerClosedFirst {
		set["listener-closed-before-shutdown"] = true
	}
	if c.ShortTimeout {
		set["exchange-parked-longer-than-the-proxy-timeout"] = true
	}
	for _, cn := range c.Conns {
		if cn.Fail {
			set["in-flight-round-trip-fails"] = true
		}
		if cn.Connect {
			set["in-flight-connect-fails"] = true
		}
		if cn.Size > 4096 {
			set["in-flight-response>4KiB"] = true
			if c.Shaped && c.NewDuring {
				set["shaped+in-flight-response>4KiB+listener-closed-early"] = true
			}
		}
		if cn.Tunnel {
			set["inside-established-mitm-session"] = true
		}
		if cn.Answer != "" {
			set["in-flight-header-only-answer"] = true
		}
		if cn.Skip {
			set["in-flight-round-trip-skipped"] = true
		}
		if cn.Connect && !cn.Fail {
			set["in-flight-blind-connect"] = true
		}
		if cn.ReqBody > 0 {
			set["in-flight-request-body-unconsumed"] = true
		}
		if cn.Withheld {
			set["rest-of-request-body-never-sent"] = true
		}
		if cn.Huge {
			set["huge-response-slow-client"] = true
		}
		if cn.Pipelined {
			set["next-request-pipelined-behind-exchange-in-flight"] = true
		}
		if cn.Point == "writing" && c.RawListener {
			set["bare-tcp-listener+response-being-written"] = true
		}
	}
	var out []string
	for k := range set {
		out = append(out, k)
	}
	return out
}

const rule = "1..3 connections each driven to one of 10 parking points (idle or mid-head, fresh or after a completed exchange; inside the request modifier, the round trip, the response modifier; response being written to a client that is not reading), then Close(), then the parked exchanges released in a drawn order, with new connections attempted during and after shutdown; non-trivial = at least one in-flight exchange or two different points"

var propShutdown = &kit.Prop[Case]{ID: "C07", Name: "shutdown", Rule: "rapid-drawn: " + rule,
	Gen: genCase, Run: run, NonTrivial: nontrivial, Classes: classes, Journal: true,
	Gates: map[string]float64{"two-or-more-in-flight": 0.2, "point-writing": 0.08}}

var propPairs = &kit.Prop[Case]{ID: "C07", Name: "two-connection-placements", Rule: "ALL pairs of parking points for two connections x both release orders; " + rule,
	Run: run, NonTrivial: nontrivial, Classes: classes, Journal: true}

func TestShutdown(t *testing.T) {
	kit.Assume("the start of a fresh connection's handler cannot be observed: idle and mid-head connections are required to be closed by the time Close() has returned, not earlier")
	kit.Assume("at the 'writing' point the response head is on the wire before shutdown is requested, so the close mark is not demanded there")
	propShutdown.Check(t, kit.N(80, 200))
}

func TestTwoConnectionPlacements(t *testing.T) {
	pts := points
	if !kit.Thorough() {
		pts = []string{"idle-after", "head-pipelined", "reqmod", "uploading", "resmod"}
	}
	propPairs.Enumerate(t, func(yield func(Case) bool) {
		for _, a := range pts {
			for _, b := range pts {
				if a == "writing" && b == "writing" {
					continue
				}
				for _, rev := range []bool{false, true} {
					c := Case{Conns: []Conn{{Point: a}, {Point: b}}, NewDuring: true, NewAfter: true, SlowClose: rev}
					finish(&c, func(k int) []int {
						o := seq(k)
						if rev && k == 2 {
							o[0], o[1] = 1, 0
						}
						return o
					})
					if rev && len(c.Release) < 2 {
						continue
					}
					if !yield(c) {
						return
					}
				}
			}
		}
	})
}

var propEdges = &kit.Prop[Case]{ID: "C07", Name: "edge-shapes", Rule: "ENUMERATED: one connection (and the same next to an ordinary exchange parked in the request modifier) for every special shape of the exchange in flight - round trip skipped, CONNECT (skipped, failing, reachable target; request and response modifier), request body nobody consumes (sent in full / withheld by the client), 16 MiB response to a slow client with and without a pipelined next request - and of the idle connection - MITM tunnel just opened, half a ClientHello, handler starting late after Accept; " + rule,
	Run: run, NonTrivial: nontrivial, Classes: classes, Journal: true}

func TestEdgeShapes(t *testing.T) {
	shapes := []Conn{
		{Point: "reqmod", Skip: true}, {Point: "resmod", Skip: true, Size: 5000},
		{Point: "reqmod", Skip: true, Connect: true}, {Point: "resmod", Skip: true, Connect: true},
		{Point: "reqmod", Connect: true},
		{Point: "reqmod", Fail: true, Connect: true}, {Point: "resmod", Fail: true, Connect: true}, {Point: "resmod", Fail: true},
		{Point: "reqmod", Skip: true, ReqBody: 98304}, {Point: "resmod", Skip: true, ReqBody: 98304, Huge: true},
		{Point: "reqmod", Skip: true, ReqBody: 98304, Huge: true},
		{Point: "reqmod", Skip: true, ReqBody: 100000, Withheld: true},
		{Point: "reqmod", Huge: true}, {Point: "reqmod", Huge: true, Pipelined: true}, {Point: "roundtrip", Huge: true, Pipelined: true},
		{Point: "mitm-connect-reqmod"}, {Point: "mitm-connect-reqmod", Carry: true}, {Point: "mitm-awaiting-hello"},
		{Point: "mitm-idle-tunnel"}, {Point: "mitm-half-hello"},
		{Point: "idle-fresh"}, {Point: "head-fresh"},
		{Point: "resmod", Connect: true},
		{Point: "reqmod", Answer: "head"}, {Point: "roundtrip", Answer: "204"}, {Point: "resmod", Answer: "304"},
		{Point: "reqmod", Tunnel: true}, {Point: "roundtrip", Tunnel: true, Size: 70000}, {Point: "resmod", Tunnel: true, Answer: "204"}, {Point: "idle-after", Tunnel: true},
	}
	propEdges.Enumerate(t, func(yield func(Case) bool) {
		for _, sh := range shapes {
			for _, with := range []bool{false, true} {
				c := Case{Conns: []Conn{sh}, NewDuring: true, NewAfter: true}
				if with {
					c.Conns = append(c.Conns, Conn{Point: "reqmod"})
				}
				if sh.Point == "idle-fresh" || sh.Point == "head-fresh" {
					c.SlowAddr = true
				}
				// (a few of the shapes with the accept loop already gone)
				if with && (sh.Point == "reqmod" || sh.Point == "mitm-idle-tunnel") && !sh.Skip && !sh.Connect {
					c.ListenerClosedFirst = true
				}
				normalize(&c)
				finish(&c, func(k int) []int { return seq(k) })
				if !yield(c) {
					return
				}
			}
		}
	})
}

// ---------------------------------------------------------------- stress: accept racing Close

// RaceCase: k clients connect and send a request while Close() runs.
type RaceCase struct {
	Clients int `json:"clients"`
	DelayUs int `json:"delay_us"` // Close() is called this long after the clients start
}

func runRace(c RaceCase) (v kit.Verdict) {
	T := kit.T()
	origin := netkit.NewOrigin(func(r *netkit.ReqLog) netkit.Script {
		id := r.Header.Get("X-Verif-Id")
		return netkit.Script{Raw: []byte(fmt.Sprintf("HTTP/1.1 200 OK\r\nContent-Length: %d\r\n\r\nBODY-%s", 5+len(id), id)), CutAt: -1}
	})
	defer origin.Close()
	dialer := &netkit.Dialer{Route: func(string) string { return origin.Addr }}
	p := martian.NewProxy()
	p.SetTimeout(60 * time.Second)
	p.SetDial(dialer.Dial)
	pr := netkit.Start(p, nil)
	var wg sync.WaitGroup
	type out struct {
		raw []byte
		err error
	}
	outs := make([]out, c.Clients)
	start := make(chan struct{})
	for i := 0; i < c.Clients; i++ {
		wg.Add(1)
		go func(i int) {
			defer wg.Done()
			<-start
			cl, err := netkit.Dial(pr.Addr)
			if err != nil {
				outs[i].err = err
				return
			}
			defer cl.Close()
			cl.Write([]byte(request(fmt.Sprintf("r%d", i))))
			cl.Conn.SetReadDeadline(time.Now().Add(3 * T))
			outs[i].raw, outs[i].err = io.ReadAll(cl.BR)
		}(i)
	}
	close(start)
	time.Sleep(time.Duration(c.DelayUs) * time.Microsecond)
	if !pr.Stop(3 * T) {
		v.Addf("C07/race/accept-vs-close/timeout-close-not-returning", "Close() did not return within %v while %d clients were connecting", 3*T, c.Clients)
	}
	done := make(chan struct{})
	go func() { wg.Wait(); close(done) }()
	select {
	case <-done:
	case <-time.After(4 * T):
		v.Addf("C07/race/accept-vs-close/timeout-client-left-hanging", "a client connection was neither served nor closed %v after Close()", 4*T)
		return v
	}
	for i, o := range outs {
		if len(o.raw) == 0 {
			continue // refused, reset or closed unserved: fine
		}
		res, err := http.ReadResponse(bufioReader(o.raw), &http.Request{Method: "GET"})
		if err != nil {
			v.Addf("C07/race/accept-vs-close/partial-response", "client %d received %d bytes that are not a response: %q", i, len(o.raw), trunc(o.raw, 80))
			continue
		}
		body, berr := io.ReadAll(res.Body)
		if berr != nil || string(body) != fmt.Sprintf("BODY-r%d", i) {
			v.Addf("C07/race/accept-vs-close/partial-response", "client %d: body %q (%v)", i, body, berr)
		}
	}
	return v
}

var propRace = &kit.Prop[RaceCase]{ID: "C07", Name: "accept-racing-close",
	Rule: "k clients connect and send a request while Close() is called after a drawn delay; Close must return, every client is either served completely or closed unserved; non-trivial = k >= 2",
	Gen: func(t *rapid.T) RaceCase {
		return RaceCase{Clients: rapid.IntRange(1, 12).Draw(t, "clients"), DelayUs: rapid.SampledFrom([]int{0, 0, 50, 200, 1000, 3000}).Draw(t, "delay")}
	},
	Run: runRace, NonTrivial: func(c RaceCase) bool { return c.Clients >= 2 }, Journal: true,
}

func TestAcceptRacingClose(t *testing.T) { propRace.Check(t, kit.N(150, 400)) }

func TestReplay(t *testing.T) { kit.Replay(t, propShutdown, propPairs, propEdges, propRace) }
