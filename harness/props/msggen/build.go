package msggen

import (
	"bytes"
	"compress/flate"
	"compress/gzip"
	"compress/zlib"
	"fmt"
	"hash/adler32"
	"net/http"
	"net/url"
	"strings"
	"time"
	"unicode/utf8"

	"verifharness/internal/kit"
)

// Header is one header (or trailer, or decoded query) line of the description.
// Value may hold bytes that are not valid UTF-8.
type Header struct{ Name, Value string }

// ParamDesc is a parameter of a form body as generated.
type ParamDesc struct{ Name, Value, File, CT string }

// Message is the wire form of a Spec together with its description.
type Message struct {
	Spec Spec
	Wire []byte

	// start line
	Method string // request
	Target string // request target as written
	URL    string // absolute URL of the request: scheme://host + path + ?query
	Host   string
	Proto  string // HTTP/1.1 | HTTP/1.0
	Status int    // response
	Reason string

	Headers  []Header // every header line of the head, in wire order, names as written
	Query    []Header // decoded query parameters in order
	Cookies  []Cookie // cookies in order
	Location string

	ContentType    string // raw Content-Type value ("" = header absent)
	MediaType      string // lower-cased type/subtype
	MediaParsable  bool   // Content-Type is a well-formed media type
	Encoding       string // Content-Encoding value as written ("" = absent)
	Framing        string // none | cl | chunked | close
	BodyOnWire     bool   // false for answers to HEAD and for 204/304
	Entity         []byte // the body as the recipient receives it: transfer coding removed, content coding kept
	Plain          []byte // Entity with a gzip/deflate content coding removed (Entity itself for unknown codings)
	Decodable      bool   // Encoding is gzip/deflate (any case) and the entity really is that
	Trailers       []Header
	FormKind       string // "" | urlencoded | multipart
	Params         []ParamDesc
	NonUTF8Body    bool     // Entity is not valid UTF-8
	NonUTF8Param   bool     // some form parameter value is not valid UTF-8
	NonUTF8Query   bool     // some query value is not valid UTF-8
	BadQuery       bool     // the query holds a pair net/url does not accept
	BadPairs       []Header // ... those pairs (also part of Query)
	ChunkCount     int
	TrailerPresent bool
}

func jsonBody(seed uint64, n int) []byte {
	if n < 8 {
		return []byte("1234567"[:n])
	}
	out := append([]byte(`{"d":"`), kit.Text(seed, n-8)...)
	return append(out, `"}`...)
}

func binBody(seed uint64, n int) []byte {
	if n <= 0 {
		return []byte{}
	}
	return append([]byte{0xff}, kit.Bytes(seed, n-1)...)
}

func compress(enc string, plain []byte) []byte {
	var buf bytes.Buffer
	switch strings.ToLower(enc) {
	case "gzip":
		w, _ := gzip.NewWriterLevel(&buf, gzip.BestSpeed)
		w.Write(plain)
		w.Close()
	case "deflate":
		// raw DEFLATE: what messageview and its tests mean by "deflate"
		w, _ := flate.NewWriter(&buf, flate.BestSpeed)
		w.Write(plain)
		w.Close()
	case "x-gzip":
		w, _ := gzip.NewWriterLevel(&buf, gzip.BestSpeed)
		w.Write(plain)
		w.Close()
	case "deflate-zlib-small":
		// a zlib stream whose header declares the smallest window (512 B ..
		// 16 KiB) that covers the data - what zlib writes with windowBits 9..14
		// (headers 18 xx .. 68 xx). Go's writer only produces 78 xx, so the
		// container is put together here: CMF, FLG, raw DEFLATE, Adler-32.
		wb := uint(9)
		for wb < 15 && 1<<wb < len(plain) {
			wb++
		}
		cmf := byte((wb-8)<<4 | 8)
		flg := byte((31 - (uint(cmf)<<8)%31) % 31) // FLEVEL 0, no dictionary
		buf.Write([]byte{cmf, flg})
		w, _ := flate.NewWriter(&buf, flate.BestSpeed)
		w.Write(plain)
		w.Close()
		sum := adler32.Checksum(plain)
		buf.Write([]byte{byte(sum >> 24), byte(sum >> 16), byte(sum >> 8), byte(sum)})
	case "deflate-zlib":
		// the "deflate" coding as RFC 7230 4.2.2 defines it: zlib-wrapped
		w, _ := zlib.NewWriterLevel(&buf, zlib.BestSpeed)
		w.Write(plain)
		w.Close()
	default:
		return plain
	}
	return buf.Bytes()
}

func (m *Message) buildBody() {
	s := m.Spec
	var plain []byte
	switch s.Body.Kind {
	case "text":
		plain = kit.Text(s.Body.Seed, s.Body.Size)
	case "json":
		plain = jsonBody(s.Body.Seed, s.Body.Size)
	case "binary":
		plain = binBody(s.Body.Seed, s.Body.Size)
	case "form":
		m.FormKind = "urlencoded"
		var parts []string
		for _, p := range s.Body.Params {
			v := string(p.Value.Bytes())
			parts = append(parts, url.QueryEscape(p.Name)+"="+url.QueryEscape(v))
			m.Params = append(m.Params, ParamDesc{Name: p.Name, Value: v})
		}
		plain = []byte(strings.Join(parts, "&"))
	case "multipart":
		m.FormKind = "multipart"
		var buf bytes.Buffer
		for _, p := range s.Body.Params {
			v := p.Value.Bytes()
			if bytes.Contains(v, []byte("--"+s.Body.Boundary)) {
				panic("msggen: part value contains the boundary")
			}
			fmt.Fprintf(&buf, "--%s\r\nContent-Disposition: form-data; name=%q", s.Body.Boundary, p.Name)
			if p.File != "" {
				fmt.Fprintf(&buf, "; filename=%q", p.File)
			}
			buf.WriteString("\r\n")
			if p.CT != "" {
				fmt.Fprintf(&buf, "Content-Type: %s\r\n", p.CT)
			}
			buf.WriteString("\r\n")
			buf.Write(v)
			buf.WriteString("\r\n")
			m.Params = append(m.Params, ParamDesc{Name: p.Name, Value: string(v), File: p.File, CT: p.CT})
		}
		fmt.Fprintf(&buf, "--%s--\r\n", s.Body.Boundary)
		plain = buf.Bytes()
	case "badform":
		// labelled as a form, but no form parser accepts it; FormKind stays
		// empty: there are no parameters to expect
		filler := string(kit.Text(s.Body.Seed, s.Body.Size))
		b := s.Body.Boundary
		switch s.Body.Bad {
		case "escape":
			plain = []byte("filler=" + url.QueryEscape(filler) + "&name=J%ZZrgen")
		case "semicolon":
			plain = []byte("a=1;b=2&filler=" + url.QueryEscape(filler))
		case "multipart-unclosed":
			plain = []byte("--" + b + "\r\nContent-Disposition: form-data; name=\"a\"\r\n\r\n" + filler + "\r\n")
		case "multipart-noboundary":
			plain = []byte("--" + b + "\r\nContent-Disposition: form-data; name=\"a\"\r\n\r\n" + filler + "\r\n--" + b + "--\r\n")
		default: // multipart-truncated
			plain = []byte("--" + b + "\r\nContent-Disposition: form-data; name=\"a\"\r\n\r\n" + filler + "\r\n--" + b + "\r\nContent-Disposition: form-da")
		}
	default:
		plain = []byte{}
	}
	for _, p := range m.Params {
		if !utf8.ValidString(p.Value) {
			m.NonUTF8Param = true
		}
	}
	switch s.Encoding {
	case "gzip-multi":
		// two or three gzip members one after the other (RFC 1952 2.2: a gzip
		// file is a series of members); labelled gzip, x-gzip for odd sizes
		n := 2 + len(plain)%2
		for i := 0; i < n; i++ {
			m.Entity = append(m.Entity, compress("gzip", plain[i*len(plain)/n:(i+1)*len(plain)/n])...)
		}
		m.Plain, m.Decodable = plain, true
	case "gzip", "deflate", "GZIP", "x-gzip", "deflate-zlib", "deflate-zlib-small":
		m.Entity = compress(s.Encoding, plain)
		m.Plain = plain
		m.Decodable = true
	default: // "", br, gzip-bad: the bytes are what they are
		m.Entity = plain
		m.Plain = plain
	}
	switch s.Encoding {
	case "gzip-padded":
		m.Entity = append(compress("gzip", plain), "\x00\x00\x00\x00 padding after the gzip member"...)
		m.Plain, m.Encoding = m.Entity, "gzip"
	case "gzip-truncated":
		z := compress("gzip", plain)
		m.Entity = z[:len(z)-len(z)/3-1]
		m.Plain, m.Encoding = m.Entity, "gzip"
	case "deflate-bad":
		m.Encoding = "deflate"
	case "gzip-bad":
		m.Encoding = "gzip"
	case "deflate-zlib", "deflate-zlib-small":
		m.Encoding = "deflate"
	case "gzip-multi":
		m.Encoding = "gzip"
		if len(plain)%3 == 1 {
			m.Encoding = "x-gzip"
		}
	default:
		m.Encoding = s.Encoding
	}
}

func (m *Message) add(buf *bytes.Buffer, name, value string) {
	fmt.Fprintf(buf, "%s: %s\r\n", name, value)
	m.Headers = append(m.Headers, Header{name, value})
}

func setCookieLine(c Cookie) string {
	var sb strings.Builder
	fmt.Fprintf(&sb, "%s=%s", c.Name, c.Value)
	if c.Path != "" {
		fmt.Fprintf(&sb, "; Path=%s", c.Path)
	}
	if c.Domain != "" {
		fmt.Fprintf(&sb, "; Domain=%s", c.Domain)
	}
	if c.Expires != 0 {
		fmt.Fprintf(&sb, "; Expires=%s", time.Unix(c.Expires, 0).UTC().Format(http.TimeFormat))
	}
	if c.MaxAge != 0 {
		fmt.Fprintf(&sb, "; Max-Age=%d", c.MaxAge)
	}
	if c.HTTPOnly {
		sb.WriteString("; HttpOnly")
	}
	if c.Secure {
		sb.WriteString("; Secure")
	}
	return sb.String()
}

const maxChunks = 1500

// Build produces the wire bytes and the description of s.
func Build(s Spec) *Message {
	m := &Message{Spec: s, Framing: s.Framing, Proto: "HTTP/1.1"}
	if s.Proto10 {
		m.Proto = "HTTP/1.0"
	}
	m.buildBody()
	m.BodyOnWire = true
	if s.Response && (s.ReqMethod == "HEAD" || s.Status == 204 || s.Status == 304) {
		m.BodyOnWire = false
	}
	if s.Framing == "none" {
		m.BodyOnWire = false
	}
	wouldBe := len(m.Entity)
	if !m.BodyOnWire {
		m.Entity, m.Plain = []byte{}, []byte{}
		m.Params = nil
	}
	m.NonUTF8Body = !utf8.Valid(m.Entity)

	var buf bytes.Buffer
	if s.Response {
		m.Status, m.Reason = s.Status, http.StatusText(s.Status)
		if s.CustomReason {
			m.Reason = s.Reason
		}
		fmt.Fprintf(&buf, "%s %d %s\r\n", m.Proto, m.Status, m.Reason)
	} else {
		var q []string
		for _, nv := range s.Query {
			if nv.Raw != "" {
				q = append(q, nv.Raw)
				if nv.Bad {
					m.BadQuery = true
					m.BadPairs = append(m.BadPairs, Header{nv.Name, nv.Value.Lit})
				}
				m.Query = append(m.Query, Header{nv.Name, nv.Value.Lit})
				continue
			}
			v := string(nv.Value.Bytes())
			q = append(q, url.QueryEscape(nv.Name)+"="+url.QueryEscape(v))
			m.Query = append(m.Query, Header{nv.Name, v})
			if !utf8.ValidString(v) {
				m.NonUTF8Query = true
			}
		}
		pq := s.Path
		if len(q) > 0 {
			pq += "?" + strings.Join(q, "&")
		}
		m.Method, m.Host = s.Method, s.Host
		m.URL = "http://" + s.Host + pq
		m.Target = pq
		if s.AbsForm {
			m.Target = m.URL
		}
		if s.Path == "*" {
			// asterisk form: the origin receives '*'
			m.Target, m.URL = "*", "http://"+s.Host+"/*"
		}
		if s.Method == "CONNECT" {
			// authority form; proxy.go gives the URL the scheme http
			m.Target, m.URL = s.Host, "http://"+s.Host
		}
		fmt.Fprintf(&buf, "%s %s %s\r\n", m.Method, m.Target, m.Proto)
		m.add(&buf, "Host", s.Host)
	}
	for _, h := range s.Headers {
		m.add(&buf, h.Name, h.Value)
	}
	for _, l := range s.ConnOptions {
		m.add(&buf, "Connection", l)
	}
	if s.ConnClose {
		m.add(&buf, "Connection", "close")
	}
	ct := s.ContentType
	if s.Body.Kind == "multipart" || (s.Body.Kind == "badform" && strings.HasPrefix(s.Body.Bad, "multipart") && s.Body.Bad != "multipart-noboundary") {
		ct += "; boundary=" + s.Body.Boundary
	}
	m.ContentType = ct
	if ct != "" {
		m.add(&buf, "Content-Type", ct)
		m.MediaType = strings.ToLower(strings.TrimSpace(strings.SplitN(ct, ";", 2)[0]))
		m.MediaParsable = !strings.HasSuffix(ct, "; a")
	}
	if m.Encoding != "" {
		m.add(&buf, "Content-Encoding", m.Encoding)
	}
	m.Cookies = s.Cookies
	if len(s.Cookies) > 0 {
		if s.Response {
			for _, c := range s.Cookies {
				m.add(&buf, "Set-Cookie", setCookieLine(c))
			}
		} else {
			var cs []string
			for _, c := range s.Cookies {
				cs = append(cs, c.Name+"="+c.Value)
			}
			lines := s.CookieLines
			if lines < 1 {
				lines = 1
			}
			if lines > len(cs) {
				lines = len(cs)
			}
			for i := 0; i < lines; i++ {
				// line i gets the cookies i*n/lines .. (i+1)*n/lines: order kept
				m.add(&buf, "Cookie", strings.Join(cs[i*len(cs)/lines:(i+1)*len(cs)/lines], "; "))
			}
		}
	}
	if s.Location != "" {
		m.Location = s.Location
		m.add(&buf, "Location", s.Location)
	}
	switch s.Framing {
	case "cl":
		m.add(&buf, "Content-Length", fmt.Sprint(wouldBe))
	case "chunked":
		m.add(&buf, "Transfer-Encoding", "chunked")
		if len(s.Trailers) > 0 && !s.TrailersUnannounced {
			var names []string
			for _, t := range s.Trailers {
				names = append(names, t.Name)
			}
			m.add(&buf, "Trailer", strings.Join(names, ", "))
		}
	}
	buf.WriteString("\r\n")
	if m.BodyOnWire {
		switch s.Framing {
		case "chunked":
			rest := m.Entity
			for i := 0; len(rest) > 0; i++ {
				n := len(rest)
				if len(s.Chunks) > 0 && i < maxChunks {
					if c := s.Chunks[i%len(s.Chunks)]; c < n {
						n = c
					}
				}
				if s.ChunkExt {
					fmt.Fprintf(&buf, "%x;ext=%d\r\n", n, i)
				} else {
					fmt.Fprintf(&buf, "%x\r\n", n)
				}
				buf.Write(rest[:n])
				buf.WriteString("\r\n")
				rest = rest[n:]
				m.ChunkCount++
			}
			buf.WriteString("0\r\n")
			for _, t := range s.Trailers {
				fmt.Fprintf(&buf, "%s: %s\r\n", t.Name, t.Value)
				m.Trailers = append(m.Trailers, Header{t.Name, t.Value})
			}
			buf.WriteString("\r\n")
			m.TrailerPresent = len(s.Trailers) > 0
		default:
			buf.Write(m.Entity)
		}
	}
	m.Wire = buf.Bytes()
	return m
}
