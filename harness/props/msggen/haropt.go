package msggen

import (
	"strings"

	"github.com/google/martian/v3/har"
	"pgregory.net/rapid"
)

// HarOpt is a HAR post-data / body logging option.
type HarOpt struct {
	Mode  string   `json:"mode"` // all | none | optin | optout
	Types []string `json:"types,omitempty"`
}

// CTPrefixes are the content-type prefixes options are drawn from.
var CTPrefixes = []string{"text/", "application/json", "image/", "application/x-www-form", "multipart/", "TEXT/PLAIN", "application/octet"}

// DrawHarOpt draws an option.
func DrawHarOpt(t *rapid.T, label string) HarOpt {
	o := HarOpt{Mode: rapid.SampledFrom([]string{"all", "all", "none", "optin", "optout"}).Draw(t, label+"_mode")}
	if o.Mode == "optin" || o.Mode == "optout" {
		n := rapid.IntRange(1, 3).Draw(t, label+"_ntypes")
		for i := 0; i < n; i++ {
			o.Types = append(o.Types, rapid.SampledFrom(CTPrefixes).Draw(t, label+"_type"))
		}
	}
	return o
}

// Option is the har.Option for request post data (post) or response bodies.
func (o HarOpt) Option(post bool) har.Option {
	switch o.Mode {
	case "none":
		if post {
			return har.PostDataLogging(false)
		}
		return har.BodyLogging(false)
	case "optin":
		if post {
			return har.PostDataLoggingForContentTypes(o.Types...)
		}
		return har.BodyLoggingForContentTypes(o.Types...)
	case "optout":
		if post {
			return har.SkipPostDataLoggingForContentTypes(o.Types...)
		}
		return har.SkipBodyLoggingForContentTypes(o.Types...)
	}
	if post {
		return har.PostDataLogging(true)
	}
	return har.BodyLogging(true)
}

// Captures says whether a body with the given Content-Type value is to be
// captured under the option: media types compare case-insensitively, the
// configured strings are prefixes.
func (o HarOpt) Captures(contentType string) bool {
	match := false
	for _, p := range o.Types {
		if strings.HasPrefix(strings.ToLower(contentType), strings.ToLower(p)) {
			match = true
		}
	}
	switch o.Mode {
	case "none":
		return false
	case "optin":
		return match
	case "optout":
		return !match
	}
	return true
}
